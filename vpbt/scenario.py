"""Hypothesis strategies for BADS problem scenarios (DESIGN.md §3). A scenario is a plain
JSON-able dict; every random choice is made here (by Hypothesis), never in the harness."""
from __future__ import annotations

import math

from hypothesis import strategies as st

INF = float("inf")

DEFAULT_PROFILE = dict(
    maxD=3,
    coord_classes=("linear", "tight", "log", "posnolog", "unbounded", "zerolb"),
    allow_mixed_unbounded=False,  # bounded + unbounded coordinates in one problem (C08 cell)
    p_plausible_omitted=0.12,
    x0_classes=("interior", "on_lb", "on_ub", "near", "near2", "at_plb", "at_pub", "out_plausible"),
    p_x0_none=0.12,
    noise_modes=("none", "none", "none", "auto", "declared", "specified"),
    p_cons=0.3,
    target_kinds=("quad", "quad", "l1", "maxn", "plateau", "rosen", "linear"),
    c_classes=("inside", "inside", "hardbox", "on_bound", "outside", "far"),
    extra_budget=(0, 60),
    p_subdesign=0.0,
    max_iter_choices=(None, None, None, 1, 2, 3, 5),
    tol_mesh_choices=(None, None, 1e-6, 1e-3, 0.1, 0.6),
    spellings=("a1", "a1", "a2", "list", "tuple"),
    # ("np32" = np.float32 is offered separately: merged records are then computed in single precision (NEP 50), which the
    # exact-value oracles of C05/C12 would have to model; C04 and C09 use it)
    out_spellings=("float", "float", "np", "arr1", "arr11", "arr0"),
    specified_spellings=("both",),  # "alone" = {specify_target_noise: True} only
    final_samples=(0, 1, 2, 5, 10),
    p_seed_none=0.1,
    scale_exp=(-3, 3),
    extra_options=True,
    cons_x0=("margin", "margin", "margin", "boundary", "infeasible", "snap_only"),
    specified_noise_size=False,
)


def logedge_profile(**kw):
    """Problems whose start lies at/near the upper (or lower) bound of a wide log-scaled variable: after the 0.1% repair the
    start is less than half a search-mesh step from the transformed bound, so gridisation can round it past the bound."""
    p = dict(DEFAULT_PROFILE)
    p.update(maxD=2, coord_classes=("log_edge", "log_edge", "log", "linear"), x0_classes=("near2u", "near2u", "near2u", "near2", "on_ub"),
             p_x0_none=0.0, p_plausible_omitted=0.0, p_cons=0.0, extra_budget=(2, 25), noise_modes=("none", "none", "declared"),
             max_iter_choices=(2, None), tol_mesh_choices=(None,), extra_options=False, p_subdesign=0.0)
    p.update(kw)
    return p


def profile(**kw):
    p = dict(DEFAULT_PROFILE)
    p.update(kw)
    return p


def design_size(D, noisy, fes=None):
    """Predicted number of initial-design points (excluding x0 and the noise test)."""
    fes = D if fes is None else fes
    if noisy:
        fes = max(20, fes)
    if fes <= 0:
        return 0
    n = int(math.ceil(math.log2(fes))) if fes > 1 else 0
    if 2**n == D:
        n += 1
    return 2**n


def record(**kw):
    """Like st.fixed_dictionaries, but built from st.tuples: fixed_dictionaries with more than a few keys is rejected
    by Hypothesis' fuzz_one_input for arbitrary byte strings, tuples are not."""
    keys = list(kw)
    return st.tuples(*[kw[k] for k in keys]).map(lambda t: dict(zip(keys, t)))


def chance(draw, p):
    """Bernoulli(p) with an unbiased finite sampler (st.floats is heavily biased towards 0)."""
    # hashed so that Hypothesis's preference for boundary values (0, max) does not skew the probability
    return ((draw(st.integers(0, 65535)) * 40503 + 389) % 1000) < round(p * 1000)


_mant = st.sampled_from([1.0, 2.0, 5.0])
_frac = st.sampled_from([0.01, 0.05, 0.1, 0.25, 0.4])


@st.composite
def coord(draw, cls, scale_exp):
    """One coordinate: dict(lb, ub, plb, pub, cls). All finite values are 'nice' decimals so that
    shrunk cases stay readable; free floats are mixed in through `_free`."""
    e = draw(st.integers(scale_exp[0], scale_exp[1]))
    W = draw(_mant) * 10.0**e
    if cls in ("linear", "tight"):
        centre = draw(st.sampled_from([0.0, 0.0, 0.3, -0.7, 2.0, -10.0, 100.0])) * W
        lb, ub = centre - W / 2, centre + W / 2
        if cls == "tight":
            plb, pub = lb, ub
        else:
            a, b = draw(_frac), draw(_frac)
            plb, pub = lb + a * W, ub - b * W
    elif cls == "log":
        lb = W
        # (irregular multipliers too: with round ratios the transformed bounds always sit at the same few mesh offsets)
        plb = lb * draw(st.sampled_from([1.0, 1.5, 3.0, 1500.0]))
        pub = plb * draw(st.sampled_from([10.0, 10.0, 30.0, 1e3, 1e4, 410.7, 77.3]))
        ub = pub * draw(st.sampled_from([1.0, 2.0, 10.0, 1.37, 1.623, 3.3, 1.05]))
    elif cls == "log_edge":
        # log-scaled variable whose transformed upper bound sits just below a node of the initial search mesh (2^-10): a start
        # repaired to 0.1% inside the bound is then closer to that node than to the one below the bound
        lb = W
        plb = lb * draw(st.sampled_from([1.5, 3.0, 1500.0]))
        pub = plb * draw(st.sampled_from([1e3, 1e4, 410.7]))
        m_, w_ = (math.log(plb) + math.log(pub)) / 2.0, (math.log(pub) - math.log(plb)) / 2.0
        h_ = 2.0**-10
        k_ = draw(st.integers(1100, 2400))  # transformed upper bound between ~1.07 and ~2.34
        ub = math.exp(m_ + w_ * (k_ * h_ - draw(st.sampled_from([0.05, 0.1, 0.15])) * h_))
        cls = "log"
    elif cls == "posnolog":
        lb = W
        plb = lb * draw(st.sampled_from([1.0, 1.2, 2.0]))
        pub = plb * draw(st.sampled_from([1.5, 3.0, 9.0, 9.99]))
        ub = pub * draw(st.sampled_from([1.0, 1.1, 5.0]))
    elif cls == "zerolb":
        # hard lower bound exactly 0 with a plausible range of a decade or more: NOT log-scaled (the rule needs all four
        # bounds strictly positive), although everything but the lower bound looks like a log variable
        lb = 0.0
        plb = W * draw(st.sampled_from([1.0, 0.37, 2.0]))
        pub = plb * draw(st.sampled_from([10.0, 30.0, 1e3, 77.3]))
        ub = pub * draw(st.sampled_from([1.0, 2.0, 10.0, 1.37]))
    elif cls == "unbounded":
        centre = draw(st.sampled_from([0.0, 0.0, 1.0, -3.0, 50.0])) * W
        lb, ub = -INF, INF
        plb, pub = centre - W / 2, centre + W / 2
    else:
        raise ValueError(cls)
    return dict(cls=cls, lb=lb, ub=ub, plb=plb, pub=pub)


def _zparams(c, nonlinear=True):
    """(m, w, log) of the normalised coordinate for one generated coordinate."""
    is_log = nonlinear and c["cls"] == "log"
    if is_log:
        lo, hi = math.log(c["plb"]), math.log(c["pub"])
    else:
        lo, hi = c["plb"], c["pub"]
    return (lo + hi) / 2.0, (hi - lo) / 2.0, is_log


def z_of(c, x, nonlinear=True):
    m, w, lg = _zparams(c, nonlinear)
    if math.isinf(x):
        return x
    return ((math.log(x) if lg else x) - m) / w


def x_of(c, z, nonlinear=True):
    m, w, lg = _zparams(c, nonlinear)
    v = m + w * z
    return math.exp(v) if lg else v


def effective_x0(c, x):
    """x0 after BADS's documented repair: a start on / too close to a hard bound is moved 0.1% of the
    range inside. Only used to place generated constraints around where the run will really start."""
    lb, ub = c["lb"], c["ub"]
    if math.isinf(lb) or math.isinf(ub):
        return x
    r = ub - lb
    lo = lb + 1e-3 * r if abs(lb) > 2.3e-308 else 1e-3 * r
    hi = ub - 1e-3 * r if abs(ub) > 2.3e-308 else -1e-3 * r
    return min(max(x, lo), hi)


@st.composite
def x0_coord(draw, c, cls):
    lb, ub, plb, pub = c["lb"], c["ub"], c["plb"], c["pub"]
    t = draw(st.sampled_from([0.5, 0.25, 0.75, 0.1, 0.9, 0.37]))
    interior = plb + t * (pub - plb)
    if cls == "interior" or (math.isinf(lb) and cls in ("on_lb", "on_ub", "near", "near2")):
        return interior
    if cls == "on_lb":
        return lb
    if cls == "on_ub":
        return ub
    if cls == "near":
        return lb + 1e-4 * (ub - lb) if draw(st.booleans()) else ub - 1e-4 * (ub - lb)
    if cls == "near2":
        # just inside the 0.1% repair margin (not repaired): gridisation can still round it past a bound of a log-scaled variable
        f = draw(st.sampled_from([1.1e-3, 1.3e-3, 1.6e-3]))
        return lb + f * (ub - lb) if draw(st.booleans()) else ub - f * (ub - lb)
    if cls == "near2u":
        # a hair inside the upper repair margin: neither repaired nor (therefore) absorbed into the plausible box
        if math.isinf(ub):
            return interior
        return ub - draw(st.sampled_from([1.02e-3, 1.05e-3, 1.1e-3])) * (ub - lb)
    if cls == "at_plb":
        return plb
    if cls == "at_pub":
        return pub
    if cls == "out_plausible":
        if math.isinf(lb):
            return plb - draw(st.sampled_from([0.5, 2.0, 10.0])) * (pub - plb)
        if plb > lb:
            return lb + 0.5 * (plb - lb)
        return interior
    raise ValueError(cls)


@st.composite
def c_coord(draw, c, cls, nonlinear=True):
    """Minimiser coordinate in z-space."""
    zl, zu = z_of(c, c["lb"], nonlinear), z_of(c, c["ub"], nonlinear)
    side = draw(st.sampled_from([-1.0, 1.0]))
    if cls == "inside":
        return draw(st.sampled_from([0.0, 0.3, -0.6, 0.8, -0.85, 0.123]))
    if cls == "hardbox":
        if math.isinf(zl):
            return side * draw(st.sampled_from([1.5, 3.0]))
        return (1 + 0.5 * (zu - 1)) if side > 0 else (-1 + 0.5 * (zl + 1))
    if cls == "on_bound":
        if math.isinf(zl):
            return side
        return zu if side > 0 else zl
    if cls == "outside":
        if math.isinf(zl):
            return side * 5.0
        return zu + 0.5 if side > 0 else zl - 0.5
    if cls == "far":
        if math.isinf(zl):
            return side * 40.0
        return zu + 20.0 if side > 0 else zl - 20.0
    raise ValueError(cls)


@st.composite
def rotation_spd(draw, D, cond_max=100.0):
    """SPD matrix Q diag(lam) Q^T from Givens rotations (JSON list of lists)."""
    import numpy as np

    lam = [draw(st.sampled_from([1.0, 2.0, 5.0, 10.0, 30.0, cond_max])) for _ in range(D)]
    Q = np.eye(D)
    for i in range(D):
        for j in range(i + 1, D):
            th = draw(st.sampled_from([0.0, 0.3, 0.7853981633974483, 1.2, 2.5]))
            G = np.eye(D)
            G[i, i] = G[j, j] = math.cos(th)
            G[i, j] = -math.sin(th)
            G[j, i] = math.sin(th)
            Q = Q @ G
    A = Q @ np.diag(lam) @ Q.T
    A = (A + A.T) / 2
    return [[float(v) for v in row] for row in A]


@st.composite
def constraint(draw, coords, x0z, D, nonlinear, zs, p):
    """Constraint spec built around x0's normalised position (x0z may be None: use the centre)."""
    kind = draw(st.sampled_from(list(p.get("cons_kinds", ("ball", "ball", "half", "band", "annulus", "union2", "checker")))))
    x0cls = draw(st.sampled_from(p["cons_x0"])) if x0z is not None else "margin"
    base = list(x0z) if x0z is not None else [0.0] * D
    ret = draw(st.sampled_from(["real", "real", "bool", "real_col", "bool_col", "real_list", "bool_list", "barrier", "nanviol"]))
    if ret == "nanviol" and (x0cls != "margin" or x0z is None):
        ret = "real"  # (whether a start where the constraint is undefined counts as infeasible is not something the statement settles)
    a = [draw(st.sampled_from([1.0, -1.0, 0.5, 0.0])) for _ in range(D)]
    if not any(a):
        a[0] = 1.0
    na = math.sqrt(sum(v * v for v in a))
    a = [v / na for v in a]
    spec = dict(kind=kind, z=zs, ret=ret, x0cls=x0cls)
    if chance(draw, p.get("p_mutating_cons", 0.06)):
        spec["mutates"] = True
    r = draw(st.sampled_from([0.5, 1.0, 2.0]))
    # offset of the region's reference point from x0 along direction a, by class
    if kind == "ball":
        off = {"margin": 0.3 * r, "boundary": r, "infeasible": 1.3 * r, "snap_only": 0.3 * r}[x0cls]
        spec.update(zc=[b + off * ai for b, ai in zip(base, a)], r=r)
        if x0cls == "snap_only":
            spec.update(zc=list(base), r=draw(st.sampled_from([5e-5, 1e-4])))
    elif kind == "half":
        b = {"margin": 0.5, "boundary": 0.0, "infeasible": -0.3, "snap_only": 5e-5}[x0cls]
        spec.update(zc=list(base), a=a, b=b)
    elif kind == "band":
        w = draw(st.sampled_from([0.05, 0.2, 0.6]))
        off = {"margin": 0.0, "boundary": w, "infeasible": 1.5 * w, "snap_only": 0.0}[x0cls]
        if x0cls == "snap_only":
            w = 5e-5
        spec.update(zc=[b_ + off * ai for b_, ai in zip(base, a)], a=a, w=w)
    elif kind == "annulus":
        r1, r2 = r, r * draw(st.sampled_from([1.2, 2.0]))
        d = {"margin": (r1 + r2) / 2, "boundary": r1, "infeasible": 0.5 * r1, "snap_only": (r1 + r2) / 2}[x0cls]
        spec.update(zc=[b_ + d * ai for b_, ai in zip(base, a)], r1=r1, r2=r2)
    elif kind == "union2":
        off = {"margin": 0.3 * r, "boundary": r, "infeasible": 1.3 * r, "snap_only": 0.3 * r}[x0cls]
        zc = [b_ + off * ai for b_, ai in zip(base, a)]
        zc2 = [v - 2.5 * r * ai for v, ai in zip(zc, a)]
        if x0cls == "infeasible":
            zc2 = [v + 2.5 * r * ai for v, ai in zip(zc, a)]
        spec.update(zc=zc, zc2=zc2, r=r)
    elif kind == "gridhalf":
        spec.update(zc=list(base), h=2.0**-10, t=base[0] + draw(st.sampled_from([0.05, 0.2, 0.5])), x0cls="margin")
    elif kind == "checker":
        pp = draw(st.sampled_from([0.25, 0.5, 1.0]))
        off = {"margin": 0.0, "boundary": pp, "infeasible": 1.4 * pp, "snap_only": 0.0}[x0cls]
        zc = list(base)
        zc[0] = zc[0] + off
        spec.update(zc=zc, p=pp, t=0.0)
    return spec


@st.composite
def scenario(draw, p=None):
    p = p or DEFAULT_PROFILE
    D = draw(st.integers(1, p["maxD"]))
    nonlinear = draw(st.sampled_from([True, True, True, True, False])) if p["extra_options"] else True
    plaus_omitted = chance(draw, p["p_plausible_omitted"])
    classes = list(p["coord_classes"])
    if plaus_omitted:
        classes = [c for c in classes if c != "unbounded"] or ["linear"]
    first = draw(st.sampled_from(classes))
    coords = []
    for i in range(D):
        if i == 0:
            cls = first
        else:
            allowed = classes
            if not p["allow_mixed_unbounded"]:
                allowed = [c for c in classes if (c == "unbounded") == (first == "unbounded")] or [first]
            cls = draw(st.sampled_from(allowed))
        c = draw(coord(cls, p["scale_exp"]))
        if plaus_omitted:
            c = dict(c, plb=c["lb"], pub=c["ub"], cls="tight" if c["cls"] in ("linear", "tight") else c["cls"])
            if c["cls"] == "posnolog" and c["ub"] / c["lb"] >= 10:
                c["cls"] = "log"
        coords.append(c)

    # starting point
    x0_none = chance(draw, p["p_x0_none"])
    x0 = None
    x0cls = ["none"] * D
    if not x0_none:
        x0cls = [draw(st.sampled_from(p["x0_classes"])) for _ in range(D)]
        x0 = [draw(x0_coord(coords[i], x0cls[i])) for i in range(D)]

    zs = dict(m=[], w=[], log=[])
    for c in coords:
        m, w, lg = _zparams(c, nonlinear)
        zs["m"].append(m)
        zs["w"].append(w)
        zs["log"].append(lg)

    # target
    kind = draw(st.sampled_from(p["target_kinds"]))
    ccls = [draw(st.sampled_from(p["c_classes"])) for _ in range(D)]
    if x0 is not None and chance(draw, p.get("p_warm", 0.0)):
        ccls = ["at_x0"] * D  # warm start: the minimiser is the starting point itself
    cz = [draw(c_coord(coords[i], ccls[i] if ccls[i] != "at_x0" else "inside", nonlinear)) for i in range(D)]
    if x0 is not None:
        for i in range(D):
            if ccls[i] == "at_x0":  # warm start: the minimiser coordinate coincides with the (repaired) starting coordinate
                cz[i] = z_of(coords[i], effective_x0(coords[i], x0[i]), nonlinear)
    scale = draw(st.sampled_from(list(p.get("scales", (1.0, 1.0, 1e-2, 10.0, 1e2, 1e4)))))
    tgt = dict(kind=kind, c=cz, scale=scale, offset=draw(st.sampled_from([0.0, 0.0, -3.5, 1000.0])),
               callable=draw(st.sampled_from(list(p.get("callable_kinds", ("function", "function", "function", "object", "method"))))),
               z=zs, out=draw(st.sampled_from(p["out_spellings"])), ccls=ccls)
    if chance(draw, p.get("p_mutating_target", 0.06)):
        # a target that works in place on the array it is handed (x -= centre; return sum(x**2)): what it was called with
        # must still be what is logged
        tgt["mutates"] = True
    if kind == "quad":
        tgt["A"] = draw(rotation_spd(D))
    if kind == "linear":
        tgt["a"] = [draw(st.sampled_from([1.0, -1.0, 0.5, -2.0])) for _ in range(D)]
    if kind == "plateau":
        tgt["steps"] = draw(st.sampled_from([0.02, 0.25, 1.0, 4.0]))

    # noise
    mode = draw(st.sampled_from(p["noise_modes"]))
    noise = dict(mode=mode)
    if mode != "none":
        noise["sigma"] = draw(st.sampled_from([1e-3, 0.1, 1.0, 10.0])) * (min(scale, 1e4) if draw(st.booleans()) else 1.0)
        noise["hetero"] = draw(st.sampled_from([0.0, 0.5, 3.0])) if mode == "specified" else 0.0
        if mode == "specified" and draw(st.booleans()):
            noise["jitter"] = True
        if mode in ("declared", "specified") and chance(draw, p.get("p_quiet_noise", 0.08)):
            # declared noisy (an SD is reported under specified noise) but the values carry no noise at all: repeated
            # evaluations agree exactly, and a constant target gives a training set without any spread
            noise["quiet"] = True
    tgt["noise"] = noise
    noisy_declared = mode in ("declared", "specified")

    # constraint
    cons = None
    if chance(draw, p["p_cons"]):
        x0z = None
        if x0 is not None:
            x0z = [z_of(coords[i], effective_x0(coords[i], x0[i]), nonlinear) for i in range(D)]
            x0z = [v if math.isfinite(v) else 0.0 for v in x0z]
        cons = draw(constraint(coords, x0z, D, nonlinear, zs, p))

    # options
    opts = {}
    if not nonlinear:
        opts["nonlinear_scaling"] = False
    if mode == "declared":
        opts["uncertainty_handling"] = True
    elif mode == "specified":
        sp = draw(st.sampled_from(p["specified_spellings"]))
        opts["specify_target_noise"] = True
        if sp == "both":
            opts["uncertainty_handling"] = True
    elif mode == "none" and draw(st.booleans()):
        opts["uncertainty_handling"] = False
    if mode != "none":
        if draw(st.booleans()):
            opts["noise_final_samples"] = draw(st.sampled_from(p["final_samples"]))
        if mode == "declared" and draw(st.booleans()):
            opts["noise_size"] = noise["sigma"]
        if mode == "specified" and p.get("specified_noise_size") and chance(draw, 0.2):
            opts["noise_size"] = noise["sigma"]  # documented as ignored (with a warning) under specified noise
    fes = None
    if p["extra_options"] and chance(draw, p.get("p_fes", 0.1)):
        fes = draw(st.sampled_from(list(p.get("fes_choices", (0, 1, "2D", 10)))))
        fes = 2 * D if fes == "2D" else fes
        opts["fun_eval_start"] = fes
    ds = design_size(D, mode in ("declared", "specified", "auto"), fes)
    init_calls = 1 + (0 if noisy_declared else 1) + ds
    if chance(draw, p["p_subdesign"]):
        opts["max_fun_evals"] = draw(st.integers(1, max(1, init_calls - 1)))
        budget_cls = "subdesign"
    else:
        extra = draw(st.integers(p["extra_budget"][0], p["extra_budget"][1]))
        opts["max_fun_evals"] = init_calls + extra
        budget_cls = "normal"
    mi = draw(st.sampled_from(p["max_iter_choices"]))
    if mi is not None:
        opts["max_iter"] = mi
    tm = draw(st.sampled_from(p["tol_mesh_choices"]))
    if tm is not None:
        opts["tol_mesh"] = tm
    if p["extra_options"]:
        if chance(draw, 0.25):
            opts["complete_poll"] = True
        if chance(draw, 0.25):
            opts["accelerate_mesh"] = False
        if chance(draw, 0.1):
            opts["cache_size"] = draw(st.sampled_from([1, 2, 5, 17]))
        if chance(draw, 0.1):
            opts["tol_fun"] = draw(st.sampled_from([1e-6, 1e-1, 1.0]))
    for name, values, prob in p.get("extra_opts", ()):
        if chance(draw, prob):
            opts[name] = draw(st.sampled_from(list(values)))
    opts["display"] = draw(st.sampled_from(["off", "off", "off", "off", "iter", "full"]))
    np_seed = draw(st.integers(0, 2**31 - 1))
    if not chance(draw, p["p_seed_none"]):
        opts["random_seed"] = draw(st.integers(0, 10**6))
        if chance(draw, p.get("p_seed_numpy", 0.0)):
            opts["__seed_dtype__"] = draw(st.sampled_from(["np.int64", "np.int32"]))

    return dict(
        D=D, coords=coords, plaus_omitted=plaus_omitted, x0=x0, x0cls=x0cls,
        spelling=draw(st.sampled_from(p["spellings"])), target=tgt, cons=cons, options=opts,
        np_seed=np_seed, budget_cls=budget_cls, init_calls_pred=init_calls,
    )


# ---------------------------------------------------------------------------------------------
# Advanced options (advanced_bads_options.ini) that the code reads, with alternative values of the default's own type
# and range. Not listed: switches whose path announces itself as unimplemented (init_fun other than init_sobol,
# periodic_vars, acq_hedge, fun_values/f_vals, output_fcn, plot, warp_func), values the statement of C18 excludes
# (hedge_gamma = 0) and fit_lik = False (known finding of C09, exercised by a dedicated case).
# ---------------------------------------------------------------------------------------------
ADV_OPTS = (
    ("poll_mesh_multiplier", (3.0, 4.0, 2, 3)), ("n_train_max", (20, 35)), ("n_train_min", (10, 25)), ("buffer_ntrain", (10, 40)),
    ("improvement_quantile", (0.25, 0.75)), ("tol_stall_iters", (1, 2, 10)), ("accelerate_mesh_steps", (1, 5)),
    ("sloppy_improvement", (False,)), ("search_grid_number", (5, 20)), ("search_grid_multiplier", (1, 3)),
    ("mesh_overflow_warning", (1, 10)), ("max_poll_grid_number", (1, 2)), ("adaptive_incumbent_shift", (True,)),
    ("tol_poi", (1e-3, 1e-9)), ("search_method", ([["ES-wcm", 1]], [["ES-ell", 1]], [["ES-ell", 1], ["ES-wcm", 1]])),
    ("min_failed_poll_steps", (1, 3)), ("incumbent_sigma_multiplier", (1.0, 0.0)), ("gp_train_n_init", (16, 256)),
    ("gp_train_n_init_final", (2, 16)), ("gp_radius", (1, 6)), ("gp_fixed_mean", (True,)), ("use_effective_radius", (False,)),
    ("uncertain_incumbent", (False,)), ("tol_improvement", (0.5, 2.0)), ("skip_poll_after_search", (False,)),
    ("search_scale_success", (2.0, 1.0)), ("search_scale_failure", (0.5, 1.0)), ("search_scale_incremental", (1.5, 3.0)),
    ("restarts", (1,)), ("remove_points_after_tries", (2, 0)), ("poll_training", (False,)), ("min_refit_time", (1, 20)),
    ("mesh_noise_multiplier", (1.0, 0.1)), ("double_refit", (True,)), ("consecutive_skipping", (False,)),
    ("force_poll_mesh", (True,)), ("alternative_incumbent", (True,)), ("gp_rescale_poll", (2.0, 0.5)),
    ("forcing_exponent", (2.0, 1.0)), ("final_quantile", (0.1, 1e-6)), ("fun_evals_per_iter", (2,)), ("gp_mean_percentile", (50, 99)),
    ("gp_quadratic_mean_bound", (False,)), ("upper_gp_length_factor", (1, 2)), ("weighted_hyp_cov", (False,)),
    ("hyp_run_weight", (0.5,)), ("hessian_update", (True,)), ("fitness_shaping", (True,)), ("noise_shaping", (True,)),
    ("search_optimize", (True,)), ("gp_cov_prior", ("none",)), ("gp_train_init_method", ("sobol",)), ("gp_tol_opt", (1e-3, 1e-8)),
    ("hpd_frac", (0.5,)), ("normalpha_level", (1e-3,)), ("skip_poll", (False,)), ("opp_stobads", (False,)),
    ("stobads_frame_size_scaling_power", (1,)), ("es_start", (0.5, 0.1)), ("es_beta", (0.5, 2)), ("search_factor_min", (1.0, 0.1)),
    ("tol_fun", (1e-8, 1e-2)), ("gp_method", ("grid",)), ("hedge_gamma", (0.25, 0.5)), ("hedge_decay", (0.5, 0.99)),
    ("search_improve_frac", (0.1, 0.5)), ("n_search", (2**8, 2**13)), ("n_search_iter", (1, 3, 4)), ("search_n_try", (1, 2, 6)),
    ("search_size_locked", (False,)), ("search_mesh_expand", (1, 2)), ("search_mesh_increment", (0, 2)),
    ("gp_mean_fun", ("negquad", "zero")), ("use_slice_sampler", (True,)), ("gp_warnings", (True,)), ("stobads", (True,)),
    ("search_acq_fcn", ({"__callable__": "lcb_const", "v": 1.0}, {"__callable__": "lcb_const", "v": 3.0}, {"__callable__": "lcb_schedule", "k": 0.5})),
    ("tol_noise", (0.0, 1e-12)), ("gp_cov_fun", (2, 3)),
    ("complete_poll", (True,)), ("accelerate_mesh", (False,)), ("cache_size", (1, 7, 50)), ("nonlinear_scaling", (False,)),
)


@st.composite
def with_adv_opts(draw, prof, kmin=1, kmax=3, pool=ADV_OPTS):
    """A scenario of `prof` in which kmin..kmax advanced options are set to non-default values."""
    scn = draw(scenario(prof))
    k = draw(st.integers(kmin, kmax))
    names = []
    for _ in range(k):
        # (hashed 32-bit draw: Hypothesis' small-range integers and sampled_from favour a few values)
        name, values = pool[(((draw(st.integers(0, 2**32 - 1)) * 2654435761) % 2**32) >> 12) % len(pool)]
        if name == "nonlinear_scaling":
            continue  # decided when the scenario was drawn (the target's geometry depends on it)
        scn["options"][name] = draw(st.sampled_from(list(values)))
        names.append(name)
    scn["adv"] = sorted(set(names))
    return scn


# ---------------------------------------------------------------------------------------------
# Simplification candidates for the field-level minimiser used on run-level cases
# ---------------------------------------------------------------------------------------------
def simplifications(s):
    """Yield (description, simpler scenario) candidates, most aggressive first."""
    import copy

    def mod(fn):
        t = copy.deepcopy(s)
        fn(t)
        return t

    if s.get("cons") is not None:
        yield "no constraint", mod(lambda t: t.__setitem__("cons", None))
    tg = s["target"]
    if tg["noise"]["mode"] != "none":
        def nonoise(t):
            t["target"]["noise"] = {"mode": "none"}
            for k in ("uncertainty_handling", "specify_target_noise", "noise_size", "noise_final_samples"):
                t["options"].pop(k, None)
        yield "no noise", mod(nonoise)
    if tg["kind"] != "quad" or "A" in tg:
        def simple_t(t):
            t["target"]["kind"] = "l1"
            t["target"].pop("A", None)
        if tg["kind"] != "l1":
            yield "l1 target", mod(simple_t)
    if tg.get("scale", 1.0) != 1.0 or tg.get("offset", 0.0) != 0.0:
        yield "unit scale", mod(lambda t: t["target"].update(scale=1.0, offset=0.0))
    if tg.get("mutates"):
        yield "non-mutating target", mod(lambda t: t["target"].pop("mutates"))
    if tg.get("out") != "float":
        yield "float output", mod(lambda t: t["target"].update(out="float"))
    if s.get("spelling") != "a1":
        yield "array spelling", mod(lambda t: t.__setitem__("spelling", "a1"))
    for k in list(s["options"].keys()):
        if k in ("max_fun_evals", "random_seed", "display", "uncertainty_handling", "specify_target_noise"):
            continue
        yield f"default {k}", mod(lambda t, k=k: t["options"].pop(k))
    if s["options"].get("display") != "off":
        yield "display off", mod(lambda t: t["options"].__setitem__("display", "off"))
    mfe = s["options"].get("max_fun_evals")
    if mfe is not None and mfe > s["init_calls_pred"]:
        for cut in (s["init_calls_pred"], (mfe + s["init_calls_pred"]) // 2):
            if cut < mfe:
                yield f"budget {cut}", mod(lambda t, cut=cut: t["options"].__setitem__("max_fun_evals", cut))
    if any(c != 0.0 for c in tg["c"]):
        yield "centre minimiser", mod(lambda t: t["target"].__setitem__("c", [0.0] * t["D"]))
