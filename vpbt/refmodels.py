"""Independent reference models written from the property statements and docstrings (not from the code)."""
from __future__ import annotations

import math

import numpy as np


# ---------------------------------------------------------------------------------------------
# C12: evaluation log
# ---------------------------------------------------------------------------------------------
class LoggerModel:
    """Ordered list of records. Semantics from the C12 statement:
    one record per recorded evaluation, in call order; with specified noise a recorded repeat of an existing point
    is merged into that point's own record (precision-weighted mean, combined SD); no-record evaluations add no record
    and change no value; func_count counts every target call, cache_count every pre-evaluated addition."""

    def __init__(self, D, level, noise_flag, inverse=None):
        self.D = D
        self.level = level
        self.noise_flag = noise_flag
        self.inverse = inverse
        self.rec = []  # dict(x, x_orig, y, s, n_lo, n_hi)
        self.func_count = 0
        self.cache_count = 0

    def _find(self, x):
        return [i for i, r in enumerate(self.rec) if np.array_equal(r["x"], x)]

    def _record(self, x, v, sd):
        if sd is not None:
            m = self._find(x)
            if m:
                i = m[0]
                r = self.rec[i]
                tn, t1 = 1.0 / r["s"] ** 2, 1.0 / sd**2
                r["y"] = (tn * r["y"] + t1 * v) / (tn + t1)
                r["s"] = 1.0 / math.sqrt(tn + t1)
                r["n_lo"] += 1
                r["n_hi"] += 1
                return r["y"], i
        xo = x if self.inverse is None else np.asarray(self.inverse(x.reshape(1, -1)))[0]
        self.rec.append(dict(x=x.copy(), x_orig=np.array(xo, dtype=float).copy(), y=float(v), s=(float(sd) if sd is not None else None),
                             n_lo=1, n_hi=1))
        return float(v), len(self.rec) - 1

    def call(self, x, v, sd, record=True):
        """sd is the SD reported by the target (only meaningful at level 2)."""
        x = np.asarray(x, dtype=float).ravel()
        self.func_count += 1
        if not record:
            m = self._find(x)
            if m:
                self.rec[m[-1]]["n_hi"] += 1  # counting the extra observation at the point's own record is allowed
                return float(v), m[-1]
            return float(v), None
        return self._record(x, v, sd if self.level == 2 else None)

    def add(self, x, v, sd=None):
        x = np.asarray(x, dtype=float).ravel()
        self.cache_count += 1
        if self.noise_flag:
            sd = 1.0 if sd is None else sd
        else:
            sd = None
        return self._record(x, v, sd)

    def compare(self, fl, tag=""):
        """Return a list of (clause, detail) differences between the real logger and the model."""
        out = []
        n = len(self.rec)
        if fl.Xn != n - 1:
            out.append(("count:Xn", f"{tag} Xn={fl.Xn} but {n} records expected"))
            return out
        if fl.func_count != self.func_count:
            out.append(("count:func_count", f"{tag} func_count={fl.func_count} expected {self.func_count}"))
        if fl.cache_count != self.cache_count:
            out.append(("count:cache_count", f"{tag} cache_count={fl.cache_count} expected {self.cache_count}"))
        if n and fl.X_max_idx != n - 1:
            out.append(("count:X_max_idx", f"{tag} X_max_idx={fl.X_max_idx} expected {n - 1}"))
        names = ["X_orig", "Y_orig", "X", "Y", "X_flag", "fun_eval_time", "n_evals"] + (["S"] if fl.noise_flag else [])
        lens = {nm: len(getattr(fl, nm)) for nm in names}
        if len(set(lens.values())) != 1 or min(lens.values()) < n:
            out.append(("arrays:lengths", f"{tag} array lengths differ or are too short: {lens} for {n} records"))
            return out
        for i, r in enumerate(self.rec):
            if not np.array_equal(fl.X[i], r["x"]):
                out.append(("record:X", f"{tag} row {i}: X={fl.X[i].tolist()} expected {r['x'].tolist()}"))
                break
            if not np.allclose(fl.X_orig[i], r["x_orig"], rtol=1e-12, atol=0):
                out.append(("record:X_orig", f"{tag} row {i}: X_orig={fl.X_orig[i].tolist()} expected {r['x_orig'].tolist()}"))
                break
            y = float(fl.Y[i, 0])
            if not (y == r["y"] or abs(y - r["y"]) <= 1e-12 * max(1.0, abs(r["y"]))):
                out.append(("record:Y", f"{tag} row {i} at {r['x'].tolist()}: Y={y!r} expected {r['y']!r}"))
                break
            if r["s"] is not None:
                s = float(fl.S[i, 0])
                if not abs(s - r["s"]) <= 1e-12 * max(1.0, abs(r["s"])):
                    out.append(("record:S", f"{tag} row {i} at {r['x'].tolist()}: S={s!r} expected {r['s']!r}"))
                    break
            ne = float(fl.n_evals[i, 0])
            if not (r["n_lo"] <= ne <= r["n_hi"]):
                out.append(("record:n_evals", f"{tag} row {i}: n_evals={ne} expected in [{r['n_lo']}, {r['n_hi']}]"))
                break
            if not bool(fl.X_flag[i]):
                out.append(("record:X_flag", f"{tag} row {i}: X_flag False"))
                break
        m = lens["X"]
        if m > n:
            if not (np.all(np.isnan(fl.X[n:])) and np.all(np.isnan(fl.Y[n:])) and not np.any(fl.X_flag[n:]) and np.all(fl.n_evals[n:] == 0)
                    and np.all(np.isnan(fl.X_orig[n:]))):
                out.append(("arrays:tail-touched", f"{tag} rows beyond the last record are not empty"))
            if fl.noise_flag and not np.all(np.isnan(fl.S[n:])):
                out.append(("arrays:tail-touched", f"{tag} S rows beyond the last record are not empty"))
        return out
