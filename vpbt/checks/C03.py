"""C03 — optimize() terminates within the evaluation budget and counts honestly."""
from __future__ import annotations

import math

import numpy as np
from hypothesis import strategies as st

from .. import harness, runlevel, scenario, scripts
from ..engine import viol

LEVEL = "exploration"
RULE = ("(1) natural runs of generated problems x budgets (design size + 0..100, sub-design budgets as a minority), max_iter, "
        "tol_mesh, complete_poll, accelerate_mesh, all noise modes, noise_final_samples; (2) adversarial histories: the real "
        "optimize/_search_step_/_poll_step_ driven by a Hypothesis-generated outcome script (target value chosen relative to "
        "the running best per phase; optionally a scripted search proposal: evaluated point / incumbent / fresh mesh point). "
        "Oracles: independent call counter == func_count; calls <= max_fun_evals when the budget covers the design; design "
        "size within the reference bound; polls <= max_iter; termination message names a condition that holds; loop probe "
        "bounds non-progress (no window of 2*search_n_try loop iterations without a target call or a poll). Non-trivial = run "
        "showing >= 3 controller classes (empty search set, successful search, incremental search, failed search, failed poll, "
        "successful poll, poll cut by budget, final re-sampling) or a scripted case whose script is not all-one-outcome.")
ASSUMPTIONS = [
    "termination (liveness) is checked as a safety strengthening: bounded non-progress on the explored histories only",
    "the guarded loop probe (PYBADS_VERIF=1) reports the controller state faithfully; it only reads state",
    "scripted targets are history-dependent on purpose (any finite value sequence is a legal observation sequence)",
]

PROFILE = scenario.profile(
    maxD=3, extra_budget=(0, 100), p_subdesign=0.08, cons_x0=("margin", "margin", "snap_only", "boundary"),
    max_iter_choices=(None, None, 1, 2, 3, 5), tol_mesh_choices=(None, 1e-6, 1e-3, 0.1, 0.6, 0.125, 0.03125),
    noise_modes=("none", "none", "auto", "declared", "specified"),
    specified_spellings=("both", "alone"),
    extra_opts=(("search_n_try", (0, 1, 2), 0.15), ("search_size_locked", (False,), 0.1)),
)
PROFILE_T = dict(PROFILE, maxD=6, extra_budget=(0, 300))
SCRIPT_PROFILE = scenario.profile(
    maxD=3, coord_classes=("linear", "tight"), noise_modes=("none",), p_cons=0.0, p_x0_none=0.0,
    x0_classes=("interior", "at_plb", "on_lb"), extra_budget=(10, 110), p_plausible_omitted=0.0,
    max_iter_choices=(None, None, 2, 5, 8), tol_mesh_choices=(None, 1e-6, 1e-3, 0.1, 0.125, 0.0625, 0.015625), target_kinds=("l1",),
    out_spellings=("float",), spellings=("a1",),
    extra_opts=(("search_n_try", (0, 1, 2), 0.2),),
)
N = {"quick": 256, "thorough": 4000}
N_SCRIPT = {"quick": 160, "thorough": 3000}

MSGS = {
    "budget": "reached maximum number of function evaluations",
    "max_iter": "reached maximum number of iterations",
    "tol_mesh": "options['tol_mesh']",
    "tol_fun": "options['tol_fun']",
}


def ref_design_bound(D, fes, mfe, noisy):
    """Reference bound on the number of initial-design points (statement: design capped by max_fun_evals-1)."""
    if noisy:
        fes = min(max(20, fes), mfe)
    if fes <= 0:
        return 0
    fe = min(fes, mfe - 1)
    if fe <= 0:
        return 1  # a degenerate request still produces the single Sobol base point at most
    n = int(math.ceil(math.log2(fe))) if fe > 1 else 0
    if 2**n == D:
        n += 1
    return 2**n


def oracle(scn, tr, scripted=False):
    v, labs = [], []
    evals = 0
    b = tr.bads
    if tr.aborted:
        v.append(viol("e:non-progress", f"{tr.aborted}; last probes: " + str([
            {k: p[k] for k in ("loop_iter", "poll_iter", "do_poll", "ncalls", "search_count", "k")} for p in tr.probes[-4:]])))
        return v, 1, False, ["aborted"]
    if tr.result is None or b is None:
        return v, 0, False, ["skipped:no-result"]
    r = tr.result
    opts_user = scn["options"]
    D = scn["D"]
    mfe_user = opts_user.get("max_fun_evals", 500 * D)
    max_iter = opts_user.get("max_iter", 200 * D)
    ncalls = len(tr.calls)
    evals += 1
    if tr.user_object is not None and tr.user_object.received != ncalls:
        v.append(viol("a:func-count", f"{ncalls} evaluations recorded but the user's callable object received {tr.user_object.received}", site="user-object"))
    # (a) honest counting
    if not (ncalls == r["func_count"] == b.function_logger.func_count):
        v.append(viol("a:func-count", f"target calls={ncalls} result.func_count={r['func_count']} logger.func_count={b.function_logger.func_count}"))
    init = [s for s in tr.steps if s["kind"] == "init"]
    I = init[0]["call_hi"] if init else ncalls
    uhl = int(b.optim_state["uncertainty_handling_level"])
    declared = scn["target"]["noise"]["mode"] in ("declared", "specified")
    fes_user = opts_user.get("fun_eval_start", D)
    bound = 1 + (0 if declared else 1) + ref_design_bound(D, fes_user, mfe_user, uhl > 0)
    evals += 3
    if mfe_user > 1 and I > bound:
        v.append(viol("b:design-larger-than-reference", f"initial design used {I} calls, reference bound {bound} "
                      f"(D={D}, fun_eval_start={fes_user}, max_fun_evals={mfe_user}, noisy={uhl > 0})"))
    # (b) budget
    if mfe_user >= I:
        if ncalls > mfe_user:
            v.append(viol("b:budget-exceeded", f"{ncalls} target calls > max_fun_evals={mfe_user} (design used {I})",
                          site="noisy" if uhl > 0 else "deterministic"))
    else:
        labs.append("budget<design")
    # (c) poll iterations
    npoll = sum(1 for s in tr.steps if s["kind"] == "poll")
    if npoll > max_iter:
        v.append(viol("c:polls-exceed-max-iter", f"{npoll} poll steps > max_iter={max_iter}"))
    if r["iterations"] > max_iter:
        v.append(viol("c:iterations-exceed-max-iter", f"iterations={r['iterations']} > max_iter={max_iter}"))
    # (d) message
    msg = str(r["message"])
    kind = [k for k, s in MSGS.items() if s in msg]
    evals += 1
    if len(kind) != 1:
        v.append(viol("d:message-unknown", f"message={msg!r}"))
    else:
        kind = kind[0]
        labs.append("msg=" + kind)
        nfinal = sum(1 for c in tr.calls if c["phase"] == "loop")
        before_final = ncalls - nfinal
        if kind == "budget":
            eff = float(b.options["max_fun_evals"])
            if not before_final >= eff:
                v.append(viol("d:budget-message-false", f"message says budget reached but {before_final} calls before final "
                              f"sampling < effective budget {eff}"))
        elif kind == "max_iter":
            if not r["iterations"] >= max_iter - 1:
                v.append(viol("d:max-iter-message-false", f"iterations={r['iterations']} max_iter={max_iter}"))
        elif kind == "tol_mesh":
            tm = opts_user.get("tol_mesh", 1e-6)
            ref = 2.0 ** math.ceil(math.log2(tm))
            if not r["mesh_size"] < ref:
                v.append(viol("d:tol-mesh-message-false", f"mesh_size={r['mesh_size']} not below 2^ceil(log2 tol_mesh)={ref}"))
        elif kind == "tol_fun" and uhl == 0 and not scripted:
            tsi = int(b.options["tol_stall_iters"])
            hv = b.iteration_history.get("fval")
            it = int(r["iterations"])
            tol_fun = opts_user.get("tol_fun", 1e-3)
            if it - tsi >= 0 and hv is not None and len(hv) > it - tsi:
                base = float(hv[it - tsi])
                if not (base - float(r["fval"]) < tol_fun):
                    v.append(viol("d:tol-fun-message-false", f"fval {tsi} iterations ago {base!r} minus final {r['fval']!r} >= tol_fun={tol_fun}"))
            else:
                v.append(viol("d:tol-fun-message-false", f"stall reported at iteration {it} with tol_stall_iters={tsi}"))
    # (e) loop-iteration bound (the window clause is enforced online by the probe)
    evals += len(tr.probes)
    # classes
    cls = set()
    eff_budget = float(b.options["max_fun_evals"])
    for s in tr.steps:
        if s["exit"] is None or s["entry"] is None:
            continue
        n = s["call_hi"] - s["call_lo"]
        if s["kind"] == "search":
            if n == 0:
                cls.add("empty-search-set")
            else:
                imp = [e for e in tr.events[s["events_lo"]:] if e.get("type") == "improve" and e["phase"] == ("search", s["k"])]
                z = imp[0]["z"] if imp else float("nan")
                suff = s["entry"]["suff"]
                cls.add("search-success" if z > suff else ("search-incremental" if z > 0 else "search-failure"))
        elif s["kind"] == "poll":
            cls.add("poll-success" if s["exit"]["k"] >= s["entry"]["k"] else "poll-failure")
            if n < 2 * D and s["exit"]["func_count"] >= eff_budget:
                cls.add("poll-cut-by-budget")
    if any(c["phase"] == "loop" for c in tr.calls):
        cls.add("final-resampling")
    labs += ["ctl:" + c for c in sorted(cls)]
    nt = len(cls) >= 3
    return v, evals, nt, labs


def body(scn):
    tr = harness.run(scn, want=("improve",))
    v, evals, nt, labs = oracle(scn, tr)
    labs = harness.run_labels(scn, tr) + labs
    if scn.get("budget_cls") == "subdesign":
        labs.append("budget=subdesign")
    if nt:
        labs.append("nontrivial")
    return dict(violations=v, labels=labs, nontrivial=nt, oracle_evals=evals,
                sample=dict(runlevel.small(scn), ncalls=len(tr.calls),
                            message=None if tr.result is None else tr.result["message"]))


RERUN_PROFILE = scenario.profile(maxD=2, coord_classes=("linear", "tight"), noise_modes=("none", "declared"), p_cons=0.0, p_x0_none=0.0,
                                 extra_budget=(10, 40), max_iter_choices=(None,), tol_mesh_choices=(None,), extra_options=False)


def body_rerun(scn):
    """optimize() called a second time on the same object (a history of API calls): the second run has the same budget."""
    tr = harness.run(scn)
    v = []
    labs = ["rerun"]
    if tr.result is None or tr.bads is None:
        return dict(violations=v, labels=labs + ["rerun:first-run-failed"], nontrivial=False, oracle_evals=0, sample=None)
    n1 = len(tr.calls)
    mfe = int(scn["options"]["max_fun_evals"])
    try:
        r2 = tr.bads.optimize()
    except Exception as e:  # noqa: BLE001
        info = harness.exc_info(e)
        v.append(viol("f:second-optimize", f"second optimize() on the same object raised {info['type']}: {info['msg'][:120]}", site="exception"))
        r2 = None
    n2 = len(tr.calls) - n1
    if r2 is not None:
        if n2 > mfe:
            v.append(viol("f:second-optimize", f"second optimize() on the same object made {n2} target calls > max_fun_evals={mfe}", site="budget"))
        elif int(r2["func_count"]) != n2:
            v.append(viol("f:second-optimize", f"second optimize() on the same object made {n2} target calls (budget {mfe}) but reports "
                          f"func_count={r2['func_count']}", site="func-count"))
    return dict(violations=v, labels=labs, nontrivial=True, oracle_evals=1, sample=dict(runlevel.small(scn), first=n1, second=n2))


def body_scripted(case):
    scn, oc = case["scn"], case["script"]
    ss = scripts.make_search_script(case["search"]) if case.get("search") else None
    tr = harness.run(scn, want=("improve",), script=scripts.make_value_script(oc), search_script=ss)
    v, evals, nt, labs = oracle(scn, tr, scripted=True)
    if tr.run_exc is not None and not tr.aborted:
        labs.append("outcome=run-" + tr.run_exc["type"])
    mixed = len(set(oc["search"])) > 1 or len(set(oc["poll"])) > 1
    labs += ["scripted", "script-mixed" if mixed else "script-uniform"]
    if ss:
        labs.append("scripted-search")
    nt = bool(mixed and tr.result is not None)
    if nt:
        labs.append("nontrivial")
    npoll = sum(1 for s in tr.steps if s["kind"] == "poll")
    return dict(violations=v, labels=labs, nontrivial=nt, oracle_evals=evals,
                sample=dict(script=oc, search=case.get("search"), options=scn["options"], D=scn["D"], ncalls=len(tr.calls),
                            polls=npoll, loop_iters=len(tr.probes),
                            message=None if tr.result is None else tr.result["message"]))


@st.composite
def scripted_cases(draw, prof):
    scn = draw(scenario.scenario(prof))
    oc = draw(scripts.outcome_lists())
    search = draw(st.one_of(st.none(), scripts.search_modes(), st.sampled_from([["empty"], ["empty", "empty", "empty", "real"], ["incumbent"]])))
    return dict(scn=scn, script=oc, search=search)


ADV_EXCLUDE = ()


def plan(tier):
    return [("runs", 16), ("scripted", 16), ("advopts", 16), ("rerun", 4)]


def run_part(res, part, tier, seed, shard, nshards):
    if part == "rerun":
        return runlevel.sweep(res, RERUN_PROFILE, 8 if tier == "quick" else 64, seed + 5, shard, nshards, body_rerun)
    if part == "advopts":
        return runlevel.adv_sweep(res, PROFILE, tier, seed, shard, nshards, body, exclude=ADV_EXCLUDE)
    if part == "runs":
        runlevel.sweep(res, PROFILE if tier == "quick" else PROFILE_T, N[tier], seed, shard, nshards, body)
    else:
        prof = SCRIPT_PROFILE if tier == "quick" else dict(SCRIPT_PROFILE, maxD=4, extra_budget=(10, 250))
        runlevel.sweep(res, prof, N_SCRIPT[tier], seed + 104729, shard, nshards, body_scripted, strategy=scripted_cases(prof))


def _simp_scripted(c):
    for d, s2 in scenario.simplifications(c["scn"]):
        yield d, dict(c, scn=s2)
    if c.get("search"):
        yield "real search", dict(c, search=None)
    for ph in ("search", "poll", "init"):
        lst = c["script"][ph]
        if len(lst) > 1:
            yield f"shorter {ph} script", dict(c, script=dict(c["script"], **{ph: lst[: len(lst) // 2]}))
            yield f"shorter {ph} script (tail)", dict(c, script=dict(c["script"], **{ph: lst[len(lst) // 2:]}))


def minimise(part, tier, sig, case, seed):
    mr = 12 if tier == "quick" else 40
    if part == "rerun":
        return runlevel.field_minimise(case, sig, body_rerun, max_runs=mr)
    if part in ("runs", "advopts"):
        return runlevel.field_minimise(case, sig, body, max_runs=mr)
    return runlevel.field_minimise(case, sig, body_scripted, max_runs=mr, simplifier=_simp_scripted)


def replay(part, case):
    return runlevel.replay_body(body_scripted if part == "scripted" else (body_rerun if part == "rerun" else body), case)


def floors(tier):
    return {"nontrivial": 30, "scripted": 50}
