"""C04 — deterministic targets: the result is the best evaluated point, reported truthfully."""
from __future__ import annotations

import numpy as np

from .. import harness, runlevel, scenario
from ..engine import viol

LEVEL = "exploration"
RULE = ("Hypothesis-generated deterministic problems (smooth, non-smooth, plateaus with exact ties, optimum on/outside the "
        "box; all bound geometries, constraints, auto-detected and declared determinism); one instrumented run each. "
        "Oracle on the call log vs OptimizeResult and iteration_history. Non-trivial = the incumbent was moved at least "
        "once by a search step and once by a poll step, or two distinct evaluated points tie for the best value; distinct "
        "by scenario digest.")
ASSUMPTIONS = [
    "default incumbent-update policy (sloppy_improvement, improvement_quantile left at their defaults)",
    "the recorder sees exactly the values the target returned; equality with the result is exact (==), position within 1e-12 of the box width",
]

PROFILE = scenario.profile(
    out_spellings=("float", "float", "np", "arr1", "arr11", "arr0", "np32", "u64", "i32"),
    maxD=3, noise_modes=("none",), extra_budget=(0, 70),
    target_kinds=("quad", "quad", "l1", "maxn", "plateau", "plateau", "rosen", "linear"),
    c_classes=("inside", "inside", "hardbox", "on_bound", "outside", "far", "at_x0", "at_x0"),
    cons_x0=("margin",), p_warm=0.1,
    # stobads=True keeps the default policy for deterministic targets (the code switches it off once the target is
    # found to be deterministic), so it is inside the statement's domain
    # tol_noise = 0: "any difference at all between the two evaluations at x0 means noise" - a deterministic target has none
    extra_opts=(("stobads", (True,), 0.15), ("noise_size", (0.5, 1.0), 0.15), ("tol_noise", (0.0,), 0.1)),
)
PROFILE_T = dict(PROFILE, maxD=6, extra_budget=(0, 250))
N = {"quick": 320, "thorough": 5000}


def oracle(scn, tr):
    v = []
    evals = 0
    nt = False
    r = tr.result
    if r is None:
        return v, evals, nt, ["skipped:no-result"]
    labs = []
    wid = harness.widths(scn)
    xs = np.array([c["x"] for c in tr.calls])
    ys = np.array([c["y"] for c in tr.calls], dtype=float)
    rx = np.asarray(r["x"], dtype=float).ravel()
    fval = r["fval"]
    evals += 4
    # the calls were received by the object the user passed (not by a copy of it)
    if tr.user_object is not None and tr.user_object.received != len(tr.calls):
        v.append(viol("a:user-target-object-not-the-one-called", f"{len(tr.calls)} evaluations were made but the callable object the user passed "
                      f"received {tr.user_object.received} calls (spelling {scn['target'].get('callable')})"))
    # (a) x is an evaluated point
    d = np.max(np.abs(xs - rx) / (wid + 1e-300), axis=1)
    at = np.where(d <= 1e-12)[0]
    if at.size == 0:
        v.append(viol("a:x-not-evaluated", f"result.x={rx.tolist()} is not among the {len(xs)} evaluated points (closest rel. dist {d.min():.3g})"))
    else:
        # (b) fval is exactly the value returned there
        if not np.any(ys[at] == float(fval)):
            v.append(viol("b:fval-not-observed-at-x", f"fval={fval!r} but values returned at x were {ys[at].tolist()}"))
    # (c) nothing strictly better was evaluated
    if np.min(ys) < float(fval):
        i = int(np.argmin(ys))
        v.append(viol("c:better-point-discarded", f"call {i + 1} ({tr.calls[i]['phase']}) returned {ys[i]!r} < fval={fval!r}",
                      site=str(tr.calls[i]["phase"])))
    # (d) fsd and target type
    if not (float(np.asarray(r["fsd"]).ravel()[0]) == 0.0):
        v.append(viol("d:fsd-nonzero", f"fsd={r['fsd']!r}"))
    if r["target_type"] != "deterministic":
        v.append(viol("d:target-type", f"target_type={r['target_type']!r}"))
    # (e) recorded incumbent value never increases
    h = tr.bads.iteration_history.get("fval")
    if h is not None:
        hv = np.array([float(np.asarray(x).ravel()[0]) for x in h if x is not None], dtype=float)
        evals += len(hv)
        if hv.size > 1 and np.any(np.diff(hv) > 0):
            i = int(np.argmax(np.diff(hv) > 0))
            v.append(viol("e:history-fval-increased", f"iteration {i}->{i + 1}: {hv[i]!r} -> {hv[i + 1]!r}"))
    # (c, prefix form) a run stopped by max_iter after iteration i follows the same trajectory and returns the i-th record,
    # so every recorded incumbent value must be the best value evaluated up to its recorded func_count
    hfc = tr.bads.iteration_history.get("func_count")
    if h is not None and hfc is not None:
        for i in range(min(len(h), len(hfc))):
            if h[i] is None or hfc[i] is None:
                continue
            evals += 1
            n_i = int(hfc[i])
            f_i = float(np.asarray(h[i]).ravel()[0])
            if 0 < n_i <= len(ys) and np.min(ys[:n_i]) < f_i:
                j = int(np.argmin(ys[:n_i]))
                v.append(viol("c:better-point-discarded-at-iteration", f"iteration {i}: recorded incumbent value {f_i!r} after {n_i} evaluations, but call "
                              f"{j + 1} ({tr.calls[j]['phase']}) had returned {ys[j]!r}", site=str(tr.calls[j]["phase"])))
                break
    moves = {e["phase"][0] for e in tr.events if e.get("type") == "incumbent"}
    best = np.min(ys)
    tie = len({xs[i].tobytes() for i in np.where(ys == best)[0]}) > 1
    if tie:
        labs.append("tie-for-best")
    if "search" in moves:
        labs.append("moved-by-search")
    if "poll" in moves:
        labs.append("moved-by-poll")
    nt = bool(("search" in moves and "poll" in moves) or tie)
    return v, evals, nt, labs


def body(scn):
    tr = harness.run(scn, want=("improve",))
    v, evals, nt, labs = oracle(scn, tr)
    labs = harness.run_labels(scn, tr) + labs
    if nt:
        labs.append("nontrivial")
    return dict(violations=v, labels=labs, nontrivial=nt, oracle_evals=evals,
                sample=dict(runlevel.small(scn), ncalls=len(tr.calls), fval=None if tr.result is None else tr.result["fval"]))


# the statement is conditioned on the default incumbent-update policy: sloppy_improvement=False accepts only improvements above a threshold
ADV_EXCLUDE = ("sloppy_improvement",)


def plan(tier):
    return [("runs", 16), ("advopts", 16), ("stobads", 16)]


def run_part(res, part, tier, seed, shard, nshards):
    if part == "stobads":
        # stobads=True on a deterministic target: the code switches StoBADS off once the target is known to be deterministic,
        # so the default policy (and every clause) applies; runs long enough for several polls
        return runlevel.sweep(res, dict(PROFILE, extra_opts=(("stobads", (True,), 1.0),), extra_budget=(20, 90)), 96 if tier == "quick" else 1500,
                              seed + 23, shard, nshards, body)
    if part == "advopts":
        return runlevel.adv_sweep(res, PROFILE, tier, seed, shard, nshards, body, exclude=ADV_EXCLUDE)
    runlevel.sweep(res, PROFILE if tier == "quick" else PROFILE_T, N[tier], seed, shard, nshards, body)


def minimise(part, tier, sig, case, seed):
    return runlevel.field_minimise(case, sig, body, max_runs=12 if tier == "quick" else 40)


def replay(part, case):
    return runlevel.replay_body(body, case)


def floors(tier):
    return {"nontrivial": 20}
