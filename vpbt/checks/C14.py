"""C14 — each poll explores a positive spanning set of mesh directions at the incumbent."""
from __future__ import annotations

import itertools
import math
import sys

import numpy as np
from hypothesis import strategies as st

from .. import engine, harness, runlevel, scenario
from ..engine import viol

LEVEL = "exploration"
RULE = ("(i) exhaustive enumeration of every outcome of the direction generator's random choices (each strictly-lower-triangular "
        "integer entry, each diagonal sign, each row permutation) through an enumerating stand-in for numpy.random inside "
        "poll_mads_2n: D in {1,2,3} x mesh ratio {1,2,4} x several poll-scale vectors (thorough adds D=4 for ratios 1,2); "
        "(ii) Hypothesis over seeds with the real generator, D<=10; (iii) every poll step of generated natural runs: each polled "
        "point (internal coordinates, seen at the logger seam) equals incumbent + mesh*(row of the basis) for a row not used "
        "before, at most 2D points. Oracle on the basis: integer after undoing the poll scale, second half = -first half, "
        "|det| >= 0.5, |entries| <= ratio, signed permutation for ratio 1. Non-trivial: enumeration outcome with a non-zero "
        "off-diagonal entry, or a run with a poll step that evaluated >= 2 points.")
ASSUMPTIONS = [
    "the enumerating random source replaces the module-level `rnd` of pybads.poll.poll_mads_2n; entries discarded by the triangular mask are filled pseudo-randomly from the odometer state",
    "run-level: the basis recorded at the poll_mads_2n seam and the GP poll scale are the ones the poll step used",
]


# ---------------------------------------------------------------------------------------------
# Enumerating random source
# ---------------------------------------------------------------------------------------------
class EnumRandom:
    """Choice-sequence odometer: every call consumes choice points; `arities` is filled on the fly."""

    def __init__(self, choices):
        self.choices = list(choices)
        self.pos = 0
        self.arities = []
        self.offdiag = False

    def _choose(self, n):
        i = self.pos
        self.pos += 1
        self.arities.append(n)
        return self.choices[i] if i < len(self.choices) else 0

    def _filler(self, n):
        h = hash((tuple(self.choices), self.pos, len(self.arities), n)) & 0x7FFFFFFF
        return h % n

    def randint(self, low, high=None, size=None):
        if high is None:
            low, high = 0, low
        low, high = int(low), int(high)
        n = high - low
        if n <= 0:
            raise ValueError("low >= high")
        if size is None:
            return low + self._choose(n)
        shape = (size,) if np.isscalar(size) else tuple(int(s) for s in size)
        out = np.empty(shape, dtype=int)
        if len(shape) == 2 and shape[0] == shape[1]:
            for i in range(shape[0]):
                for j in range(shape[1]):
                    out[i, j] = low + (self._choose(n) if i > j else self._filler(n))
        else:
            for idx in np.ndindex(*shape):
                out[idx] = low + self._choose(n)
        return out

    def permutation(self, x):
        x = np.array(x)
        n = len(x)
        perms = math.factorial(n)
        k = self._choose(perms)
        order = list(itertools.islice(itertools.permutations(range(n)), k, k + 1))[0]
        return x[list(order)]


def enumerate_outcomes(fn, args):
    """Yield (choices, result) for every outcome of fn(*args) under the enumerating source."""
    mod = sys.modules["pybads.poll.poll_mads_2n"]
    old = mod.rnd
    try:
        choices = []
        while True:
            src = EnumRandom(choices)
            mod.rnd = src
            out = fn(*args)
            ar = src.arities
            ch = (choices + [0] * len(ar))[: len(ar)]
            yield ch, out
            # increment odometer
            i = len(ar) - 1
            while i >= 0:
                ch[i] += 1
                if ch[i] < ar[i]:
                    break
                ch[i] = 0
                i -= 1
            if i < 0:
                return
            choices = ch
    finally:
        mod.rnd = old


def basis_oracle(B, D, poll_scale, ratio, tag):
    v = []
    B = np.asarray(B, dtype=float)
    if B.shape != (2 * D, D):
        return [viol("basis:shape", f"{tag}: shape {B.shape} != {(2 * D, D)}")]
    M = B * np.asarray(poll_scale, dtype=float)
    R = np.round(M)
    if not np.all(np.abs(M - R) <= 1e-9 * np.maximum(1.0, np.abs(R))):
        v.append(viol("basis:not-integer", f"{tag}: M={M.tolist()}"))
        return v
    if not np.array_equal(R[D:], -R[:D]):
        v.append(viol("basis:not-symmetric", f"{tag}: second half is not the negation of the first: {R.tolist()}"))
    if abs(np.linalg.det(R[:D])) < 0.5:
        v.append(viol("basis:singular", f"{tag}: first half singular: {R[:D].tolist()}"))
    if np.max(np.abs(R)) > ratio:
        v.append(viol("basis:entry-exceeds-ratio", f"{tag}: max |entry| {np.max(np.abs(R))} > ratio {ratio}: {R[:D].tolist()}"))
    if ratio == 1:
        A = np.abs(R[:D])
        if not (np.all(A.sum(axis=0) == 1) and np.all(A.sum(axis=1) == 1) and set(np.unique(A)) <= {0.0, 1.0}):
            v.append(viol("basis:not-signed-permutation", f"{tag}: ratio 1 but first half is {R[:D].tolist()}"))
    return v


SCALES = {1: [[1.0], [0.25]], 2: [[1.0, 1.0], [0.5, 2.0], [1.0, 0.0078125]], 3: [[1.0, 1.0, 1.0], [2.0, 0.25, 1.0]],
          4: [[1.0, 1.0, 1.0, 1.0], [1.0, 0.5, 4.0, 0.125]]}


def enum_configs(tier):
    cfg = [(D, r) for D in (1, 2, 3) for r in (1, 2, 4)]
    if tier == "thorough":
        cfg += [(4, 1), (4, 2)]
    out = []
    for D, r in cfg:
        for ps in SCALES[D]:
            out.append((D, r, ps))
    return out


def run_enum(res, tier, shard, nshards):
    from pybads.poll.poll_mads_2n import poll_mads_2n

    cfgs = enum_configs(tier)
    for ci, (D, r, ps) in enumerate(cfgs):
        if ci % nshards != shard:
            continue
        mesh = 2.0**-3
        n = 0
        for ch, B in enumerate_outcomes(poll_mads_2n, (D, np.array(ps), r * mesh, mesh)):
            n += 1
            v = basis_oracle(B, D, ps, r, f"D={D} ratio={r} poll_scale={ps} choices={ch}")
            M = np.round(np.asarray(B, dtype=float) * np.asarray(ps))
            off = bool(np.any(M[:D][~np.eye(D, dtype=bool) & (np.abs(M[:D]) > 0)] != 0)) and np.count_nonzero(M[:D]) > D
            res.add_case(dict(D=D, ratio=r, poll_scale=ps, choices=ch), v, labels=[f"enum:D={D},ratio={r}"] + (["enum:offdiag"] if off else []),
                         nontrivial=off, oracle_evals=1, sample=dict(D=D, ratio=r, poll_scale=ps, choices=ch, M=M[:D].tolist()))
        res.labels[f"enum-outcomes:D={D},ratio={r}"] += n
    res.exhaustive = True


@st.composite
def real_cases(draw):
    D = draw(st.integers(1, 10))
    ratio = draw(st.sampled_from([1, 1, 2, 4, 8]))
    ps = [draw(st.sampled_from([1.0, 0.5, 2.0, 0.125, 2.0**-10, 7.0])) for _ in range(D)]
    return dict(D=D, ratio=ratio, poll_scale=ps, seed=draw(st.integers(0, 2**31 - 1)),
                mesh_exp=draw(st.integers(-20, 0)))


def body_real(c):
    from pybads.poll.poll_mads_2n import poll_mads_2n

    np.random.seed(c["seed"])
    mesh = 2.0 ** c["mesh_exp"]
    B = poll_mads_2n(c["D"], np.array(c["poll_scale"]), c["ratio"] * mesh, mesh)
    v = basis_oracle(B, c["D"], c["poll_scale"], c["ratio"], f"real D={c['D']} ratio={c['ratio']}")
    M = np.round(np.asarray(B, dtype=float) * np.asarray(c["poll_scale"]))[: c["D"]]
    off = np.count_nonzero(M) > c["D"]
    return dict(violations=v, labels=["real", f"real:ratio={c['ratio']}"] + (["real:offdiag"] if off else []), nontrivial=bool(off),
                oracle_evals=1, sample=dict(c, M=M.tolist()))


# ---------------------------------------------------------------------------------------------
# Run level
# ---------------------------------------------------------------------------------------------
PROFILE = scenario.profile(maxD=3, extra_budget=(10, 80), cons_x0=("margin",), p_cons=0.2,
                           max_iter_choices=(None,), tol_mesh_choices=(None,),
                           # mesh expansion after search sprees (advanced option): the mesh then changes between polls
                           extra_opts=(("search_mesh_expand", (1, 2), 0.15),))
N = {"quick": 160, "thorough": 3000}
N_REAL = {"quick": 4000, "thorough": 200000}


def run_oracle(scn, tr):
    v, labs = [], []
    evals = 0
    D = scn["D"]
    multi = False
    for s in tr.steps:
        if s["kind"] != "poll" or s["exit"] is None:
            continue
        evs = tr.events[s["events_lo"]:]
        basis = [e for e in evs if e.get("type") == "poll_basis" and e["phase"] == ("poll", s["k"])]
        pts = [e for e in evs if e.get("type") == "logger_call" and e["phase"] == ("poll", s["k"])]
        evals += 1
        if len(basis) > 1:
            v.append(viol("run:basis-refilled", f"poll {s['k']}: direction generator called {len(basis)} times"))
        if not basis:
            if pts:
                v.append(viol("run:polled-without-basis", f"poll {s['k']}: {len(pts)} evaluations but no basis generated"))
            continue
        be = basis[0]
        v += basis_oracle(be["B"], D, be["poll_scale"], max(1, round(be["search_mesh"] / be["mesh"])), f"run poll {s['k']}")
        if len(pts) > 2 * D:
            v.append(viol("run:more-than-2D-polled", f"poll {s['k']}: {len(pts)} points > 2D={2 * D}"))
        if len(pts) >= 2:
            multi = True
        u0 = s["entry"]["u"]
        mesh = s["entry"]["mesh"]
        dirs = (np.asarray(be["B"], dtype=float) * mesh) * np.asarray(be["poll_scale"], dtype=float)
        used = set()
        for pe in pts:
            evals += 1
            d = pe["u"] - u0
            err = np.max(np.abs(dirs - d), axis=1)
            cand = [i for i in np.argsort(err) if err[i] <= 1e-9 * mesh + 1e-12 * np.max(np.abs(u0) + 1)]
            cand = [i for i in cand if i not in used]
            if not cand:
                why = "direction reused" if np.min(err) <= 1e-9 * mesh + 1e-12 * np.max(np.abs(u0) + 1) else "not incumbent + mesh*direction"
                v.append(viol("run:polled-point-off-basis", f"poll {s['k']}: {why}: u={pe['u'].tolist()} incumbent={u0.tolist()} mesh={mesh} "
                              f"dirs={dirs.tolist()}", site=why))
                break
            used.add(cand[0])
    if multi:
        labs.append("poll>=2pts")
    return v, evals, multi, labs


def body_run(scn):
    tr = harness.run(scn, want=("poll", "logger"))
    v, evals, nt, labs = run_oracle(scn, tr)
    labs = harness.run_labels(scn, tr) + labs + ["run"]
    if nt:
        labs.append("nontrivial-run")
    return dict(violations=v, labels=labs, nontrivial=nt, oracle_evals=evals, sample=dict(runlevel.small(scn), ncalls=len(tr.calls)))


ADV_EXCLUDE = ()


def plan(tier):
    return [("enum", 16), ("real", 8), ("runs", 16), ("advopts", 16)]


def run_part(res, part, tier, seed, shard, nshards):
    if part == "advopts":
        return runlevel.adv_sweep(res, PROFILE, tier, seed, shard, nshards, body_run, exclude=ADV_EXCLUDE)
    if part == "enum":
        run_enum(res, tier, shard, nshards)
    elif part == "real":
        n = runlevel.shard_count(N_REAL[tier], shard, nshards)
        engine.hyp_sweep(res, real_cases(), body_real, n, seed * 1000 + 500 + shard)
    else:
        runlevel.sweep(res, PROFILE if tier == "quick" else dict(PROFILE, maxD=6, extra_budget=(10, 250)), N[tier], seed, shard,
                       nshards, body_run)


def minimise(part, tier, sig, case, seed):
    if part in ("runs", "advopts"):
        return runlevel.field_minimise(case, sig, body_run, max_runs=12 if tier == "quick" else 40)
    if part == "real":
        m = engine.hyp_minimise(real_cases(), lambda c: any(engine.signature(x) == sig for x in body_real(c)["violations"]), 2000, seed)
        return {"case": m or case, "note": "hypothesis shrink" if m else "unminimised"}
    return {"case": case, "note": "enumeration outcome (already minimal: one choice vector)"}


def replay(part, case):
    if part in ("runs", "advopts"):
        return runlevel.replay_body(body_run, case)
    if part == "real":
        return body_real(case)["violations"]
    from pybads.poll.poll_mads_2n import poll_mads_2n

    mod = sys.modules["pybads.poll.poll_mads_2n"]
    old = mod.rnd
    try:
        mod.rnd = EnumRandom(case["choices"])
        mesh = 2.0**-3
        B = poll_mads_2n(case["D"], np.array(case["poll_scale"]), case["ratio"] * mesh, mesh)
    finally:
        mod.rnd = old
    return basis_oracle(B, case["D"], case["poll_scale"], case["ratio"], "replay")


def floors(tier):
    return {"enum:offdiag": 1000, "nontrivial-run": 30}
