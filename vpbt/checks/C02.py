"""C02 — non-box constraints: no infeasible point is evaluated or returned."""
from __future__ import annotations

import numpy as np

from .. import harness, runlevel, scenario
from .. import targets as T
from ..engine import viol

LEVEL = "exploration"
RULE = ("Generated constrained problems: ball, half-space, thin band, annulus and union of balls (non-convex), checkerboard "
        "(disconnected); real-valued or Boolean violation; all bound geometries incl. log coordinates, all noise modes; x0 "
        "feasible with margin / on the boundary / infeasible / feasible only before mesh snapping / absent. Oracle with the "
        "generated real-valued violation c(x): no target call and no returned x with c(x) > 1e-9; an x0 that is infeasible "
        "before or after snapping (snapped point taken from a constraint-free construction of the same problem) => ValueError "
        "from the constructor with zero target calls; a feasible, snap-feasible x0 is not rejected. Non-trivial = run in which "
        "the constraint removed >= 1 candidate in each of the three stages (initial design, search, poll), or an x0-rejection "
        "case.")
ASSUMPTIONS = [
    "constraint functions are vectorised and return one value per row, as a 1-D array (the docstring example) or as an (N, 1) column (the validation message)",
    "|c| <= 1e-9 at x0 or at the snapped x0 is treated as ambiguous (either outcome accepted)",
]

PROFILE = scenario.profile(maxD=3, p_cons=1.0, extra_budget=(5, 70), max_iter_choices=(None, None, 3), tol_mesh_choices=(None,),
                           cons_x0=("margin", "margin", "margin", "boundary", "infeasible", "snap_only"),
                           noise_modes=("none", "none", "auto", "declared", "specified"), specified_spellings=("both", "alone"),
                           c_classes=("inside", "hardbox", "on_bound", "outside"),
                           # large initial designs put many design points next to the constraint boundary (snapping can cross it)
                           p_fes=0.3, fes_choices=(0, 1, "2D", 10, 64, 256),
                           # 'gridhalf': only mesh nodes beyond a threshold are infeasible (feasibility before vs after snapping differs)
                           cons_kinds=("ball", "ball", "half", "band", "annulus", "union2", "checker", "gridhalf", "gridhalf"))
N = {"quick": 320, "thorough": 5000}
# poll candidates re-snapped to the search mesh (force_poll_mesh) with a mesh ratio that is not a power of two, next to thin
# slabs: the point that is checked must be the point that is evaluated
FORCE_PROFILE = dict(PROFILE, cons_kinds=("band", "band", "band", "half", "checker"), cons_x0=("margin", "snap_only", "snap_only"),
                     noise_modes=("none", "none", "declared"), p_fes=0.0, extra_budget=(30, 120), max_iter_choices=(None,),
                     extra_opts=(("force_poll_mesh", (True,), 1.0), ("poll_mesh_multiplier", (1.5, 2.5, 3.0, 1.5), 1.0)))
N_FORCE = {"quick": 96, "thorough": 1500}
MARGIN = 1e-9
INFEASIBLE_MSG = "does not satisfy non-bound constraints"
SNAP_MSG = "does no longer satisfy non-bound constraint"


def probe_start(scn):
    """Effective x0 and snapped x0 from a constraint-free construction of the same problem."""
    import pybads.bads.bads as BB

    s2 = dict(scn, cons=None)
    tr = harness.Trace()
    fun, kw = harness.build(s2, tr)
    if scn["options"].get("random_seed") is None:
        np.random.seed(scn.get("np_seed", 0))
    try:
        b = BB.BADS(fun, **kw)
    except Exception:  # noqa: BLE001
        return None
    x0 = np.asarray(b.x0, dtype=float).reshape(1, -1)
    snapped = b.var_transf.inverse_transf(np.asarray(b.u, dtype=float).reshape(1, -1))
    return x0, snapped


def body(scn):
    cs = dict(scn["cons"], ret="real")
    c = lambda X: T.violation(cs, X)  # noqa: E731
    pr = probe_start(scn)
    tr = harness.run(scn, want=("filter",))
    v = []
    labs = harness.run_labels(scn, tr)
    evals = 0
    nt = False
    if pr is None:
        labs.append("skipped:invalid-without-constraint")
        return dict(violations=v, labels=labs, nontrivial=False, oracle_evals=0, sample=runlevel.small(scn))
    c0, cs0 = float(c(pr[0])[0]), float(c(pr[1])[0])
    ambiguous = abs(c0) <= MARGIN or abs(cs0) <= MARGIN
    infeasible = c0 > MARGIN or cs0 > MARGIN
    if infeasible and scn["cons"].get("ret") == "nanviol":
        # the constraint is *undefined* (NaN) at the start: whether that start is to be rejected is not settled by the statement
        ambiguous = True
    evals += 1
    rejected = tr.ctor_exc is not None and tr.ctor_exc["type"] == "ValueError" and (INFEASIBLE_MSG in tr.ctor_exc["msg"] or SNAP_MSG in tr.ctor_exc["msg"])
    if ambiguous:
        labs.append("x0:ambiguous-boundary")
    elif infeasible:
        labs.append("x0:infeasible" if c0 > MARGIN else "x0:infeasible-after-snap")
        nt = True
        if tr.ctor_exc is None:
            v.append(viol("c:infeasible-start-accepted", f"c(x0)={c0:.3g} c(snapped x0)={cs0:.3g} but the constructor accepted the problem",
                          site="x0" if c0 > MARGIN else "snap"))
        elif tr.ctor_exc["type"] != "ValueError":
            v.append(viol("c:infeasible-start-wrong-exception", f"{tr.ctor_exc['type']}: {tr.ctor_exc['msg']}", exc_type=tr.ctor_exc["type"]))
        if tr.calls:
            v.append(viol("c:target-called-before-rejection", f"{len(tr.calls)} target call(s)"))
    else:
        labs.append("x0:feasible")
        if rejected:
            v.append(viol("d:feasible-start-rejected", f"c(x0)={c0:.3g} c(snapped x0)={cs0:.3g} but: {tr.ctor_exc['msg'][:100]}"))
    # (a) every evaluated point feasible
    if tr.calls:
        X = np.array([k["x"] for k in tr.calls])
        cv = c(X)
        evals += len(X)
        if np.any(cv > MARGIN):
            i = int(np.argmax(cv > MARGIN))
            v.append(viol("a:infeasible-point-evaluated", f"call {i + 1} ({tr.calls[i]['phase']}) at {X[i].tolist()} has violation {cv[i]:.3g} "
                          f"(constraint {scn['cons']['kind']})", site=str(tr.calls[i]["phase"])))
    if tr.result is not None:
        evals += 1
        cx = float(c(np.asarray(tr.result["x"], dtype=float).reshape(1, -1))[0])
        if cx > MARGIN:
            v.append(viol("b:infeasible-result", f"x={np.asarray(tr.result['x']).tolist()} violation {cx:.3g}"))
    # stage counters
    if tr.bads is not None and hasattr(tr.bads, "var_transf"):
        vt = tr.bads.var_transf
        stages = set()
        for e in tr.events:
            if e.get("type") != "filter" or not e["has_cons"] or e["Uin"].size == 0:
                continue
            U = np.atleast_2d(e["Uin"])
            U = np.clip(U, e["lb"], e["ub"]) if e["proj"] else U[np.all((U >= e["lb"]) & (U <= e["ub"]), axis=1)]
            if U.size and np.any(c(vt.inverse_transf(U)) > MARGIN):
                stages.add(e["phase"][0])
        labs += [f"removed-in:{s}" for s in sorted(stages)]
        if {"init", "search", "poll"} <= stages:
            nt = True
            labs.append("removed-in-all-stages")
    if nt:
        labs.append("nontrivial")
    return dict(violations=v, labels=labs, nontrivial=nt, oracle_evals=evals,
                sample=dict(runlevel.small(scn), c_x0=c0, c_snapped=cs0, ncalls=len(tr.calls)))


# ---------------------------------------------------------------------------------------------
# Targeted construction for the start-point clause: a half-space whose boundary passes *between* the effective start
# (random draw or repaired x0) and its mesh-snapped version, in both orientations. Either way the start is infeasible
# before or after snapping, so the constructor must raise ValueError before any target call.
# ---------------------------------------------------------------------------------------------
GAP_PROFILE = scenario.profile(maxD=3, p_cons=0.0, extra_budget=(5, 20), p_x0_none=0.4, max_iter_choices=(2,), tol_mesh_choices=(None,),
                               x0_classes=("interior", "near", "on_lb", "on_ub", "out_plausible", "at_plb"),
                               noise_modes=("none", "none", "declared"), extra_options=False)
N_GAP = {"quick": 128, "thorough": 2000}


def gap_cases():
    from hypothesis import strategies as st

    @st.composite
    def s(draw):
        return dict(scn=draw(scenario.scenario(GAP_PROFILE)), snapped_feasible=draw(st.booleans()), ret=draw(st.sampled_from(["real", "bool"])))
    return s()


def body_gap(case):
    scn = dict(case["scn"], cons=None)
    pr = probe_start(scn)
    labs = ["gap"]
    if pr is None:
        return dict(violations=[], labels=labs + ["gap:skipped-invalid"], nontrivial=False, oracle_evals=0, sample=None)
    zs = scn["target"]["z"]
    z0, z1 = T.zmap(zs, pr[0])[0], T.zmap(zs, pr[1])[0]
    d = float(np.linalg.norm(z1 - z0))
    if not d > 1e-6:
        return dict(violations=[], labels=labs + ["gap:start-already-on-mesh"], nontrivial=False, oracle_evals=0, sample=None)
    a = (z1 - z0) / d
    if case["snapped_feasible"]:
        a = -a  # feasible side (a.(z - zc) <= 0) contains the snapped point
    cons = dict(kind="half", z=zs, ret=case["ret"], x0cls="gap", zc=((z0 + z1) / 2).tolist(), a=a.tolist(), b=0.0)
    scn2 = dict(scn, cons=cons)
    tr = harness.run(scn2)
    v = []
    c = lambda X: T.violation(dict(cons, ret="real"), X)  # noqa: E731
    c0, c1 = float(c(pr[0])[0]), float(c(pr[1])[0])
    tag = f"boundary between the effective start (c={c0:.3g}) and its snapped point (c={c1:.3g}), x0 {'omitted' if scn['x0'] is None else 'given'}"
    if tr.ctor_exc is None:
        v.append(viol("c:infeasible-start-accepted", f"{tag}: constructor accepted the problem", site="gap:" + ("x0" if c0 > 0 else "snap")))
    elif tr.ctor_exc["type"] != "ValueError":
        v.append(viol("c:infeasible-start-wrong-exception", f"{tag}: {tr.ctor_exc['type']}: {tr.ctor_exc['msg'][:100]}", exc_type=tr.ctor_exc["type"]))
    if tr.calls:
        v.append(viol("c:target-called-before-rejection", f"{tag}: {len(tr.calls)} target call(s)", site="gap"))
    labs += ["gap:start-infeasible" if c0 > 0 else "gap:snapped-infeasible", "gap:x0-none" if scn["x0"] is None else "gap:x0-given"]
    return dict(violations=v, labels=labs, nontrivial=True, oracle_evals=1, sample=dict(runlevel.small(scn2), c_x0=c0, c_snapped=c1))


ADV_EXCLUDE = ()


def plan(tier):
    return [("runs", 16), ("snapgap", 8), ("advopts", 16), ("forcemesh", 16)]


def run_part(res, part, tier, seed, shard, nshards):
    if part == "advopts":
        return runlevel.adv_sweep(res, PROFILE, tier, seed, shard, nshards, body, exclude=ADV_EXCLUDE)
    if part == "forcemesh":
        return runlevel.sweep(res, FORCE_PROFILE, N_FORCE[tier], seed + 311, shard, nshards, body)
    if part == "snapgap":
        return runlevel.sweep(res, None, N_GAP[tier], seed + 53, shard, nshards, body_gap, strategy=gap_cases())
    runlevel.sweep(res, PROFILE if tier == "quick" else dict(PROFILE, maxD=5, extra_budget=(5, 200)), N[tier], seed, shard, nshards, body)


def _simp(s):
    for d, t in scenario.simplifications(s):
        if t.get("cons") is not None:
            yield d, t


def minimise(part, tier, sig, case, seed):
    if part == "snapgap":
        def simp(c):
            for d, s2 in scenario.simplifications(c["scn"]):
                yield d, dict(c, scn=s2)
        return runlevel.field_minimise(case, sig, body_gap, max_runs=12, simplifier=simp)
    return runlevel.field_minimise(case, sig, body, max_runs=12 if tier == "quick" else 40, simplifier=_simp)


def replay(part, case):
    return runlevel.replay_body(body_gap if part == "snapgap" else body, case)


def floors(tier):
    return {"nontrivial": 40, "x0:feasible": 100}
