"""C01 — hard box bounds are never left (DESIGN.md §5 C01)."""
from __future__ import annotations

import numpy as np

from .. import engine, harness, runlevel, scenario
from ..engine import viol

LEVEL = "exploration"
RULE = ("Hypothesis-generated BADS problems (bound geometries incl. log/tight/unbounded, x0 on/near a bound or "
        "absent, minimiser on/outside the box, all noise modes, optional constraints); one instrumented run per "
        "case; oracle over every target call, every constraint call, the result and the whole log. "
        "Non-trivial = some evaluated point has a coordinate within 2 search-mesh steps of a finite hard bound, "
        "or a log-transformed coordinate is active; distinct by scenario digest.")
ASSUMPTIONS = [
    "the generated problem classes (DESIGN.md §3) stand for 'all valid problems'",
    "the call recorder wraps the user target/constraint from outside; BADS internals are not trusted",
    "log rows are matched to recorded calls by exact equality of the original-space point",
]

PROFILE = scenario.profile(
    maxD=3,
    allow_mixed_unbounded=True,  # bounded and unbounded variables in one problem (valid since the per-variable half-bounds fix)
    c_classes=("inside", "hardbox", "on_bound", "on_bound", "outside", "outside", "far"),
    x0_classes=("interior", "on_lb", "on_ub", "near", "near", "near2", "near2", "near2", "at_plb", "at_pub", "out_plausible"),
    coord_classes=("linear", "tight", "log", "log", "log", "posnolog", "unbounded"),
    extra_budget=(0, 50),
)
PROFILE_T = dict(PROFILE, maxD=6, extra_budget=(0, 150))
N = {"quick": 320, "thorough": 5000}


def oracle(scn, tr):
    v = []
    evals = 0
    lb, ub = harness.hard_bounds(scn)
    wid = harness.widths(scn)

    def inside(x):
        return bool(np.all(np.isfinite(x)) and np.all(x >= lb) and np.all(x <= ub))

    for c in tr.calls:
        evals += 1
        if not inside(c["x"]):
            v.append(viol("a:target-call-outside-box", f"call {c['i']} ({c['phase']}) x={c['x'].tolist()} "
                          f"lb={lb.tolist()} ub={ub.tolist()}", site=str(c["phase"])))
            break
    for cc in tr.cons_calls:
        evals += 1
        X = cc["X"]
        if X.shape[1] != lb.size or not (np.all(np.isfinite(X)) and np.all(X >= lb) and np.all(X <= ub)):
            bad = X[~np.all((X >= lb) & (X <= ub), axis=1)][:2]
            v.append(viol("b:constraint-call-outside-box", f"rows {bad.tolist()} lb={lb.tolist()} ub={ub.tolist()} "
                          f"phase={cc['phase']}", site=str(cc["phase"])))
            break
    if tr.result is not None:
        evals += 1
        x = np.asarray(tr.result["x"], dtype=float).ravel()
        if not inside(x):
            v.append(viol("c:result-outside-box", f"x={x.tolist()} lb={lb.tolist()} ub={ub.tolist()}"))
    b = tr.bads
    near = False
    if b is not None and hasattr(b, "function_logger") and hasattr(b, "var_transf"):
        fl, vt = b.function_logger, b.var_transf
        n = fl.Xn + 1
        X, Xo = fl.X[:n], fl.X_orig[:n]
        tlb, tub = np.asarray(vt.lb).ravel(), np.asarray(vt.ub).ravel()
        evals += n
        if n and not (np.all(np.isfinite(X)) and np.all(X >= tlb) and np.all(X <= tub)):
            i = int(np.argmax(~np.all((X >= tlb) & (X <= tub) & np.isfinite(X), axis=1)))
            v.append(viol("d:log-internal-outside-box", f"row {i} X={X[i].tolist()} tlb={tlb.tolist()} tub={tub.tolist()}"))
        if n and not (np.all(np.isfinite(Xo)) and np.all(Xo >= lb) and np.all(Xo <= ub)):
            i = int(np.argmax(~np.all((Xo >= lb) & (Xo <= ub) & np.isfinite(Xo), axis=1)))
            v.append(viol("d:log-original-outside-box", f"row {i} X_orig={Xo[i].tolist()}"))
        if n:
            back = vt.inverse_transf(X.copy())
            err = np.abs(back - Xo)
            tol = 1e-12 * wid + 1e-12 * np.abs(Xo)
            if np.any(err > tol):
                i = int(np.argmax(np.any(err > tol, axis=1)))
                v.append(viol("d:log-rows-not-in-correspondence", f"row {i} inverse(X)={back[i].tolist()} X_orig={Xo[i].tolist()}"))
            callset = {c["x"].tobytes() for c in tr.calls}
            for i in range(n):
                if np.asarray(Xo[i], dtype=float).tobytes() not in callset:
                    v.append(viol("d:log-row-never-evaluated", f"row {i} X_orig={Xo[i].tolist()} is not a recorded call argument"))
                    break
        # (f) the internal points BADS can hand out next to a bound (the transformed bounds themselves, the mesh-rounded search
        # bounds and the neighbouring mesh nodes) map back inside the hard box: same clause as (a), on points a run may reach
        if True:
            sm0 = float(b.optim_state.get("search_mesh_size", 2.0**-10))
            cand = [tlb, tub]
            for key in ("lb_search", "ub_search"):
                if key in b.optim_state:
                    cand.append(np.asarray(b.optim_state[key], dtype=float).ravel())
            for base in (tlb, tub):
                for k in (1, 2, 3):
                    cand.append(np.clip(base + k * sm0, tlb, tub))
                    cand.append(np.clip(base - k * sm0, tlb, tub))
            P = np.array([np.where(np.isfinite(c), c, 0.0) for c in cand])
            back = vt.inverse_transf(P.copy())
            evals += len(P)
            if not (np.all(back >= lb) and np.all(back <= ub)):
                i = int(np.argmax(~np.all((back >= lb) & (back <= ub), axis=1)))
                v.append(viol("f:in-box-internal-point-maps-outside", f"internal point {P[i].tolist()} (inside the transformed box) maps to "
                              f"{back[i].tolist()} outside [{lb.tolist()}, {ub.tolist()}]"))
        if n:
            sm = float(b.optim_state.get("search_mesh_size", 2.0**-10))
            fin = np.isfinite(tlb)
            if np.any(fin):
                near = bool(np.any(np.abs(X[:, fin] - tlb[fin]) <= 2 * sm) or np.any(np.abs(X[:, fin] - tub[fin]) <= 2 * sm))
            if np.any(vt.apply_log_t):
                near = True
    return v, evals, near


def body(scn):
    tr = harness.run(scn, es_thin=scn.get("es_thin"))
    v, evals, nt = oracle(scn, tr)
    labs = harness.run_labels(scn, tr)
    if nt:
        labs.append("nontrivial")
    return dict(violations=v, labels=labs, nontrivial=nt and len(tr.calls) > 0, oracle_evals=evals,
                sample=dict(runlevel.small(scn), ncalls=len(tr.calls)))


N_EDGE = {"quick": 96, "thorough": 1500}


ADV_EXCLUDE = ()


def plan(tier):
    return [("runs", 16), ("logedge", 8), ("advopts", 16), ("thinned", 16)]


def run_part(res, part, tier, seed, shard, nshards):
    if part == "thinned":
        # constrained problems with longer evolution strategies (n_search_iter 3-4) whose populations are cut down to zero or a
        # few survivors in scripted generations: what the constraint function is handed must still be points of the box
        from hypothesis import strategies as st

        @st.composite
        def cases(draw):
            scn = draw(scenario.scenario(dict(PROFILE, p_cons=1.0, cons_x0=("margin",), extra_budget=(15, 60),
                                              extra_opts=(("n_search_iter", (3, 4, 3), 1.0),))))
            scn["es_thin"] = draw(st.lists(st.sampled_from([None, None, 0, 0, 1, 3]), min_size=2, max_size=6))
            return scn
        return runlevel.sweep(res, None, 64 if tier == "quick" else 1000, seed + 97, shard, nshards, body, strategy=cases())
    if part == "advopts":
        return runlevel.adv_sweep(res, PROFILE, tier, seed, shard, nshards, body, exclude=ADV_EXCLUDE)
    if part == "logedge":
        return runlevel.sweep(res, scenario.logedge_profile(), N_EDGE[tier], seed + 17, shard, nshards, body)
    runlevel.sweep(res, PROFILE if tier == "quick" else PROFILE_T, N[tier], seed, shard, nshards, body)


def minimise(part, tier, sig, case, seed):
    return runlevel.field_minimise(case, sig, body, max_runs=12 if tier == "quick" else 40)


def replay(part, case):
    return runlevel.replay_body(body, case)


def floors(tier):
    return {"nontrivial": 20}
