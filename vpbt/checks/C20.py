"""C20 — options: user settings win, unknown names rejected, no leaks between instances."""
from __future__ import annotations

import copy
import os
import re

import numpy as np
from hypothesis import strategies as st

from .. import engine, harness, runlevel
from ..engine import viol

LEVEL = "exploration"
TECHNIQUE = "model-based property testing: generated construction/run histories of several BADS instances against an independent evaluation of the option files (Hypothesis, shrinking)"
RULE = ("Histories of 1..4 BADS instances (D 1..6, generated override subsets over every option name of both ini files with "
        "type-appropriate values for the ~30 options the constructor reads and unique sentinels for the rest; unknown names: "
        "random identifiers, case variants, MATLAB-style names, padded names) constructed and optionally run (tiny budget) in a "
        "generated order in one process; some instances receive the options object of another live instance. Oracle: independent parser/evaluator of the two ini files (refdefaults) -> every "
        "overridden name holds the supplied value, every other name the reference default for the instance's own D with derived "
        "defaults using the user's value; unknown name => ValueError at construction; options of instance A unchanged by "
        "constructing/running B; caller's dict and x0/bounds arrays unchanged. Non-trivial = history with >= 2 instances of "
        "different D and an override of an advanced option in one of them.")
ASSUMPTIONS = [
    "documented normalisations are part of the reference: stobads/specify_target_noise None->False; uncertainty_handling None->True when specify_target_noise is set",
    "options are compared right after construction (optimize() documents that it adapts some options for noisy targets); isolation is compared across the whole history",
    "callable defaults (gp_mean_range_fun) are compared by evaluating them on fixed arguments",
]

OPT_DIR = None


def opt_dir():
    import pybads.bads.bads as BB

    return os.path.join(os.path.dirname(os.path.realpath(BB.__file__)), "option_configs")


def parse_ini(path):
    """Independent minimal parser: `name = expression` lines inside a [Section]; '#' lines are descriptions."""
    out = []
    for line in open(path, encoding="utf-8").read().splitlines():
        s = line.strip()
        if not s or s.startswith("#") or s.startswith("["):
            continue
        m = re.match(r"^([A-Za-z_][A-Za-z0-9_]*)\s*=\s*(.*)$", s)
        if m:
            val = m.group(2)
            val = re.sub(r"\s+#.*$", "", val) if not val.lstrip().startswith(("'", '"')) else val
            out.append((m.group(1), val.strip()))
    return out


class _Self(dict):
    def get(self, k, d=None):  # noqa: A003
        return dict.get(self, k, d)


def refdefaults(D, overrides):
    """Reference: evaluate both files for dimension D; user overrides win and feed derived defaults."""
    vals = _Self()
    basic = parse_ini(os.path.join(opt_dir(), "basic_bads_options.ini"))
    adv = parse_ini(os.path.join(opt_dir(), "advanced_bads_options.ini"))
    env = {"np": np, "D": D, "self": vals}
    for k, expr in basic:
        vals[k] = eval(expr, env)  # noqa: S307
    for k, v in overrides.items():
        vals[k] = v
    for k, expr in adv:
        if k in overrides:
            continue
        vals[k] = eval(expr, env)  # noqa: S307
    # documented normalisations performed by the constructor
    if vals.get("stobads") is None:
        vals["stobads"] = False
    if vals.get("specify_target_noise") is None:
        vals["specify_target_noise"] = False
    if vals.get("specify_target_noise") and vals.get("uncertainty_handling") is None:
        vals["uncertainty_handling"] = True
    return dict(vals), [k for k, _ in basic], [k for k, _ in adv]


def same(a, b):
    if callable(a) and callable(b) and not isinstance(a, type):
        try:
            y = np.array([1.0, 2.0, 7.0])
            return same(a(3.0, y), b(3.0, y))
        except Exception:  # noqa: BLE001
            return a is b
    if isinstance(a, np.ndarray) or isinstance(b, np.ndarray):
        try:
            return np.shape(a) == np.shape(b) and bool(np.array_equal(np.asarray(a), np.asarray(b), equal_nan=True))
        except Exception:  # noqa: BLE001
            return False
    if isinstance(a, (list, tuple)) and isinstance(b, (list, tuple)):
        return type(a) is type(b) and len(a) == len(b) and all(same(x, y) for x, y in zip(a, b))
    if isinstance(a, dict) and isinstance(b, dict):
        return a.keys() == b.keys() and all(same(a[k], b[k]) for k in a)
    if isinstance(a, float) and isinstance(b, float) and a != a and b != b:
        return True
    if isinstance(a, bool) != isinstance(b, bool) and (isinstance(a, (bool, np.bool_)) != isinstance(b, (bool, np.bool_))):
        return False
    try:
        return bool(a == b)
    except Exception:  # noqa: BLE001
        return False


# values that keep the constructor and a tiny run working, for the options BADS reads
CURATED = {
    "display": ["off", "iter", "full", "final"],
    "max_iter": [1, 3, 50],
    "max_fun_evals": [6, 9, 14],
    "nonlinear_scaling": [True, False],
    "complete_poll": [True, False],
    "accelerate_mesh": [True, False],
    "uncertainty_handling": [False, None],
    "noise_final_samples": [0, 3],
    "random_seed": [0, 7, 123456],
    "tol_mesh": [1e-3, 1e-8],
    "tol_fun": [1e-2, 1e-5, 0.5],
    "tol_stall_iters": [2, 9],
    "cache_size": [3, 100],
    "fun_eval_start": [1, 3],
    "search_n_try": [1, 4],
    "search_grid_number": [5, 10],
    "search_grid_multiplier": [2],
    "n_search": [2**8, 2**10],
    "n_train_max": [60, 120],
    "n_train_min": [20, 50],
    "buffer_ntrain": [50, 100],
    "min_refit_time": [1, 10],
    "gp_radius": [2, 3],
    "tol_poi": [1e-7, 1e-3],
    "hedge_gamma": [0.125, 0.0625],
    "hedge_decay": [0.5, 0.9],
    "incumbent_sigma_multiplier": [0.1, 0.3],
    "accelerate_mesh_steps": [2, 3],
    "skip_poll_after_search": [True, False],
    "gp_train_n_init": [64, 128],
    "es_beta": [1, 0.5],
    "mesh_overflow_warning": [2, 5],
    "consecutive_skipping": [True, False],
    "restarts": [0],
    "gp_cov_fun": [2, 3],  # squared exponential, Matern 5/2 (1 = rational quadratic is the default)
}
# options whose non-default value switches to unfinished code or breaks construction: never overridden
FROZEN = {"periodic_vars", "fun_values", "f_vals", "output_fcn", "stobads", "acq_hedge", "gp_mean_fun", "init_fun", "search_method",
          "poll_mesh_multiplier", "init_mesh_size_integer", "max_poll_grid_number", "search_size_locked", "noise_shaping",
          "specify_target_noise", "noise_size", "search_acq_fcn", "poll_acq_fcn", "n_search_iter", "search_mesh_expand",
          "improvement_quantile", "force_poll_mesh", "gp_cov_prior", "fit_lik", "uncertain_incumbent",
          "alternative_incumbent", "use_slice_sampler", "use_effective_radius", "warp_func", "hessian_update", "noise_nudge",
          "remove_points_after_tries", "gp_mean_percentile", "gp_mean_range_fun", "gp_rescale_poll", "sloppy_improvement",
          "tol_improvement", "forcing_exponent", "search_scale_success", "search_scale_incremental", "search_scale_failure",
          "adaptive_incumbent_shift", "final_quantile", "es_start", "upper_gp_length_factor", "gp_fixed_mean", "double_refit",
          "poll_training", "min_failed_poll_steps", "mesh_noise_multiplier", "fitness_shaping", "gp_train_init_method",
          "gp_tol_opt", "gp_train_n_init_final", "hyp_run_weight", "fun_evals_per_iter", "hpd_frac", "gp_quadratic_mean_bound",
          "tol_sd", "gp_hyp_sampler", "gp_warnings", "normalpha_level", "plot", "hessian_method", "opp_stobads",
          "stobads_frame_size_scaling_power", "tol_noise", "hedge_beta"}
DERIVED_OVERRIDE = {"tol_noise": [1e-10, 1e-3], "hedge_beta": [0.5, 2.0]}


def all_names():
    b = [k for k, _ in parse_ini(os.path.join(opt_dir(), "basic_bads_options.ini"))]
    a = [k for k, _ in parse_ini(os.path.join(opt_dir(), "advanced_bads_options.ini"))]
    return b, a


@st.composite
def histories(draw):
    basic, adv = all_names()
    names = basic + adv
    n_inst = draw(st.integers(1, 4))
    insts = []
    for i in range(n_inst):
        D = draw(st.sampled_from([1, 2, 2, 3, 6]))  # few distinct values: several instances of the same D are frequent
        ov = {}
        for nm in draw(st.lists(st.sampled_from(names), max_size=8, unique=True)):
            if nm in CURATED:
                ov[nm] = draw(st.sampled_from(CURATED[nm]))
            elif nm in DERIVED_OVERRIDE:
                ov[nm] = draw(st.sampled_from(DERIVED_OVERRIDE[nm]))
            elif nm in FROZEN:
                continue
            else:
                ov[nm] = f"sentinel::{nm}::{i}"
        if draw(st.booleans()):
            # the verbosity is the one option whose effect lives in process-wide state (the "BADS" logger)
            ov["display"] = draw(st.sampled_from(CURATED["display"]))
        if draw(st.sampled_from([False, False, False, True])):
            ov["gp_cov_fun"] = draw(st.sampled_from(CURATED["gp_cov_fun"]))
        if draw(st.sampled_from([False, False, True])):
            ov["random_seed"] = draw(st.sampled_from(CURATED["random_seed"]))  # (0 is a seed like any other)
        unknown = None
        if draw(st.sampled_from([False] * 5 + [True])):
            base = draw(st.sampled_from(names))
            unknown = draw(st.sampled_from([base.upper(), base.title().replace("_", ""), base + " ", " " + base, base + "s", "MaxFunEvals", "TolMesh",
                                            "UncertaintyHandling", "maxfunevals", "max_fun_eval", "xyz_" + base, "display_"]))
            if unknown in names:
                unknown = None
        # sometimes the options passed are the options *object* of an instance constructed earlier (BADS(..., options=b1.options)):
        # every name is then a user value, and the other instance's object is the caller's dict
        reuse = draw(st.integers(0, i - 1)) if i >= 1 and draw(st.sampled_from([False] * 5 + [True])) else None
        insts.append(dict(D=D, overrides=ov, unknown=unknown, reuse_from=reuse, no_options=draw(st.sampled_from([False] * 6 + [True])),
                          spelling=draw(st.sampled_from(["a1", "a2"])),
                          geom=draw(st.sampled_from(["inner", "inner", "tight", "x0_on_bound", "x0_outside_plausible", "near_margin", "log", "log_inner"]))))
    # operation order: construct each instance once, run some of them, in a generated interleaving
    ops = []
    for i in range(n_inst):
        ops.append(("construct", i))
        if draw(st.booleans()):
            ops.append(("run", i))
    perm = draw(st.permutations(list(range(len(ops)))))
    # keep construct before run for each instance
    ordered = []
    done = set()
    pending = [ops[j] for j in perm]
    while pending:
        for k, (kind, i) in enumerate(pending):
            if kind == "construct" or i in done:
                ordered.append((kind, i))
                if kind == "construct":
                    done.add(i)
                pending.pop(k)
                break
    return dict(insts=insts, ops=ordered)


def snapshot(opts):
    return {k: copy.deepcopy(v) if not callable(v) else v for k, v in dict.items(opts) if k != "useroptions"}


def diff_opts(a, b):
    keys = set(a) | set(b)
    return sorted(k for k in keys if k not in a or k not in b or not same(a[k], b[k]))


def run_history(case):
    import pybads.bads.bads as BB

    v = []
    labs = []
    live = {}
    snaps = {}
    ran = set()
    basic, adv = all_names()
    advset = set(adv)
    evals = 0

    seen_levels = []
    src_of = {}

    def target(x):
        import logging

        seen_levels.append(logging.getLogger("BADS").level)  # the verbosity in force while the target is being called
        return float(np.sum(np.asarray(x) ** 2))

    for kind, i in case["ops"]:
        inst = case["insts"][i]
        D = inst["D"]
        if kind == "construct":
            ov = dict(inst["overrides"])
            if inst["unknown"]:
                ov[inst["unknown"]] = 1
            user = None if (inst["no_options"] and not ov) else dict(ov)
            src = inst.get("reuse_from")
            if src is not None and src in live and not inst["unknown"]:
                # the options object of another live instance, passed as it is
                user = live[src][0].options
                ov = {k: val for k, val in dict.items(user) if k != "useroptions"}
                src_full_before = {k: copy.deepcopy(val) if not callable(val) else val for k, val in dict.items(user)}
                labs.append("options-object-of-other-instance")
            else:
                src = None
            if user is not None and "max_fun_evals" not in user and "display" not in user:
                pass
            user_before = copy.deepcopy(user) if src is None else None
            shape = (D,) if inst["spelling"] == "a1" else (1, D)
            x0 = np.full(shape, 0.5)
            lb, ub = np.full(shape, -5.0), np.full(shape, 5.0)
            plb, pub = np.full(shape, -2.0), np.full(shape, 2.0)
            geom = inst.get("geom", "inner")
            # geometries in which the constructor repairs x0 / plausible bounds (the repairs must not reach the caller's arrays)
            if geom == "tight":
                plb, pub = lb.copy(), ub.copy()
            elif geom == "x0_on_bound":
                x0 = lb.copy()
            elif geom == "x0_outside_plausible":
                x0 = np.full(shape, 4.0)
            elif geom == "near_margin":
                plb, pub = lb + 1e-4, ub - 1e-4
                x0 = ub - 1e-5
            elif geom == "log_inner":
                lb, ub = np.full(shape, 0.01), np.full(shape, 100.0)
                plb, pub, x0 = np.full(shape, 0.5), np.full(shape, 50.0), np.full(shape, 2.0)
            elif geom == "log":
                lb, ub = np.full(shape, 0.01), np.full(shape, 1000.0)
                plb, pub, x0 = np.full(shape, 0.01), np.full(shape, 100.0), np.full(shape, 0.01)
            arrs_before = [a.copy() for a in (x0, lb, ub, plb, pub)]
            err = None
            try:
                b = BB.BADS(target, x0, lb, ub, plb, pub, options=user)
            except Exception as e:  # noqa: BLE001
                err = harness.exc_info(e)
            evals += 1
            if inst["unknown"]:
                labs.append("unknown-name")
                if err is None:
                    v.append(viol("c:unknown-name-accepted", f"option name {inst['unknown']!r} accepted"))
                elif err["type"] != "ValueError":
                    v.append(viol("c:unknown-name-wrong-exception", f"option name {inst['unknown']!r}: {err['type']}: {err['msg']}", exc_type=err["type"]))
                continue
            if err is not None:
                v.append(viol("ctor:valid-options-rejected", f"overrides={ov}: {err['type']}: {err['msg']}", site=err["site"], exc_type=err["type"]))
                continue
            # (e) caller-owned objects untouched
            if src is not None:
                now = dict(dict.items(user))
                ch = sorted(k for k in set(now) | set(src_full_before) if k not in now or k not in src_full_before or not same(now[k], src_full_before[k]))
                if ch:
                    v.append(viol("d:instance-options-changed-by-other", f"constructing instance {i} from the options object of instance {src} changed "
                                  f"{ch} of that object" + (f" (useroptions: {len(src_full_before['useroptions'])} -> {len(now['useroptions'])} names)" if "useroptions" in ch else ""),
                                  site="options-object"))
            elif not same(user, user_before):
                v.append(viol("e:caller-options-dict-mutated", f"before={user_before} after={user}"))
            for nm, a0, a1 in zip(("x0", "lb", "ub", "plb", "pub"), arrs_before, (x0, lb, ub, plb, pub)):
                if not np.array_equal(a0, a1):
                    v.append(viol("e:caller-array-mutated", f"{nm}: before={a0.tolist()} after={a1.tolist()}", site=nm))
            got = snapshot(b.options)
            ref, _, _ = refdefaults(D, ov)
            # (a) overrides hold the supplied value; (b) all others the reference default for this D
            for k in sorted(set(ref) | set(got)):
                evals += 1
                if k not in got:
                    v.append(viol("b:option-missing", f"{k} missing from options (D={D})"))
                elif k not in ref:
                    v.append(viol("b:option-not-in-files", f"{k} present but not defined in the option files"))
                elif not same(got[k], ref[k]):
                    if k in ov:
                        v.append(viol("a:user-value-not-in-effect", f"{k}: supplied {ov[k]!r}, options hold {got[k]!r} (D={D})", site=k))
                    else:
                        v.append(viol("b:default-differs-from-reference", f"{k}: options hold {got[k]!r}, reference default for D={D} "
                                      f"(overrides {sorted(ov)}) is {ref[k]!r}", site=k))
            live[i] = (b, user, user_before, (x0, lb, ub, plb, pub), arrs_before)
            src_of[i] = src
            snaps[i] = got
        else:
            if i not in live:
                continue
            b, user, user_before, arrs, arrs_before = live[i]
            b.options["max_fun_evals"] = min(int(b.options["max_fun_evals"]), 12) if "max_fun_evals" not in case["insts"][i]["overrides"] else b.options["max_fun_evals"]
            b.options["display"] = b.options["display"] if "display" in case["insts"][i]["overrides"] else "off"
            pre_other = {j: snapshot(live[j][0].options) for j in live if j != i}
            del seen_levels[:]
            want_level = {"off": 30, "iter": 20, "final": 20, "full": 10}.get(b.options["display"], 20)
            res_obj = None
            try:
                res_obj = b.optimize()
            except Exception as e:  # noqa: BLE001
                info = harness.exc_info(e)
                labs.append("run-exception:" + info["type"])
            ran.add(i)
            ovr = case["insts"][i]["overrides"]
            if res_obj is not None and src_of.get(i) is None:
                # the covariance function the surrogate really uses is the one the option names
                want_cov = {1: "RationalQuadraticARD", 2: "SquaredExponential", 3: "Matern"}[ovr.get("gp_cov_fun", 1)]
                hist_gp = b.iteration_history.get("gp")
                gps = [g for g in (list(np.ravel(hist_gp)) if hist_gp is not None else []) if g is not None and hasattr(g, "covariance")]
                got_cov = type(gps[-1].covariance).__name__ if gps else None
                if got_cov is not None and got_cov != want_cov:
                    v.append(viol("a:user-value-not-in-effect", f"gp_cov_fun={ovr.get('gp_cov_fun', 1)!r}: the run's GP uses {got_cov}, expected {want_cov}", site="gp_cov_fun"))
            if res_obj is not None and "random_seed" in ovr and src_of.get(i) is None and not same(res_obj["random_seed"], ovr["random_seed"]):
                v.append(viol("a:user-value-not-in-effect", f"random_seed={ovr['random_seed']!r} supplied, the run reports {res_obj['random_seed']!r}", site="random_seed"))
            # (a) the display option of *this* instance is what governs its run, whatever was constructed in between
            if "display" in case["insts"][i]["overrides"] and seen_levels and any(lv != want_level for lv in seen_levels):
                v.append(viol("a:user-value-not-in-effect", f"display={b.options['display']!r} of instance {i}: logger level during its run was "
                              f"{sorted(set(seen_levels))}, expected {want_level} (instances constructed since: "
                              f"{[case['insts'][j]['overrides'].get('display') for j in live if j != i]})", site="display"))
            if user_before is not None and not same(user, user_before):
                v.append(viol("e:caller-options-dict-mutated", f"after optimize(): before={user_before} after={user}", site="optimize"))
            for nm, a0, a1 in zip(("x0", "lb", "ub", "plb", "pub"), arrs_before, arrs):
                if not np.array_equal(a0, a1):
                    v.append(viol("e:caller-array-mutated", f"after optimize(): {nm}: before={a0.tolist()} after={a1.tolist()}", site=nm))
            snaps[i] = snapshot(b.options)
            for j, pre in pre_other.items():
                d = diff_opts(pre, snapshot(live[j][0].options))
                if d:
                    v.append(viol("d:instance-options-changed-by-other-run", f"running instance {i} (D={D}) changed options {d} of instance {j} "
                                  f"(D={case['insts'][j]['D']})"))
        # (d) every other live instance still has the options it had
        for j in live:
            if j == i:
                continue
            d = diff_opts(snaps[j], snapshot(live[j][0].options))
            evals += 1
            if d:
                v.append(viol("d:instance-options-changed-by-other", f"{kind} of instance {i} (D={D}) changed options {d} of instance {j} "
                              f"(D={case['insts'][j]['D']})"))
        if v:
            break
    Ds = {case["insts"][i]["D"] for i in live}
    adv_over = any(set(case["insts"][i]["overrides"]) & advset for i in live)
    nt = len(live) >= 2 and len(Ds) >= 2 and adv_over
    labs += [f"instances={len(live)}"] + (["ran-some"] if ran else []) + (["nontrivial"] if nt else [])
    return v, labs, nt, evals


def body(case):
    import logging

    v, labs, nt, evals = run_history(case)
    logging.disable(logging.CRITICAL)
    return dict(violations=v, labels=labs, nontrivial=nt, oracle_evals=evals,
                sample=dict(insts=[dict(D=i["D"], overrides=i["overrides"], unknown=i["unknown"]) for i in case["insts"]], ops=case["ops"]))


N = {"quick": 480, "thorough": 12000}


def plan(tier):
    return [("histories", 16)]


def run_part(res, part, tier, seed, shard, nshards):
    engine.hyp_sweep(res, histories(), body, runlevel.shard_count(N[tier], shard, nshards), seed * 1000 + shard, case_timeout=300)


def minimise(part, tier, sig, case, seed):
    m = engine.hyp_minimise(histories(), lambda c: any(engine.signature(x) == sig for x in run_history(c)[0]), 600, seed, budget_s=120)
    return {"case": m or case, "note": "hypothesis shrink of the whole history" if m else "unminimised"}


def replay(part, case):
    case = dict(case, ops=[tuple(o) for o in case["ops"]])
    return run_history(case)[0]


def floors(tier):
    return {"nontrivial": 40, "unknown-name": 20}
