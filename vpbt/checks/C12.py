"""C12 — the evaluation log records exactly what was observed, where it was observed."""
from __future__ import annotations

import numpy as np
from hypothesis import strategies as st

from .. import engine, harness, refmodels, runlevel, scenario
from ..engine import viol

LEVEL = "exploration"
TECHNIQUE = "model-based property testing: generated operation histories against an independent reference model of the log (Hypothesis, shrinking), plus model replay over full BADS runs"
RULE = ("Histories (Hypothesis lists of operations, shrunk as one value) on a real FunctionLogger: evaluate a lattice point "
        "(5 values per coordinate, so exact repeats and points sharing k<D coordinates are frequent) with record flag on/off, "
        "or add() a pre-evaluated point; D in 1..3, cache_size 1..6 (repeated growth), noise level 0/1/2, with/without a "
        "(linear or mixed log) VariableTransformer; scripted values and SDs. After every operation the logger is compared with "
        "an independent reference model (refmodels.LoggerModel). Second population: the same model replayed over the "
        "FunctionLogger.__call__ trace of generated BADS runs (all noise modes) and compared with the final log. Non-trivial = "
        "history with >= 1 cache growth and >= 1 recorded repeat of a point that shares a coordinate with an earlier different "
        "record; runs: >= 1 repeat evaluation.")
ASSUMPTIONS = [
    "the reference model encodes the statement: merge only into the record of the identical point, precision-weighted; a no-record evaluation may or may not be counted in its own point's observation count (both accepted), never elsewhere",
    "add() is exercised at noise levels 0 and 2 only (it is not used by BADS at level 1)",
]

LAT = [-1.0, -0.5, 0.0, 0.5, 1.0]
VALS = [-3.5, 0.0, 1.25, 7.0, 100.0, 1e-3]
SDS = [0.5, 1.0, 2.0, 0.1]


def make_vt(kind, D):
    from pybads.variable_transformer import VariableTransformer

    if kind is None:
        return None
    if kind == "id":
        return VariableTransformer(D, np.full((1, D), -2.0), np.full((1, D), 2.0), np.full((1, D), -1.0), np.full((1, D), 1.0))
    lb = np.array([[0.1 if i % 2 == 0 else -30.0 for i in range(D)]])
    ub = np.array([[1000.0 if i % 2 == 0 else 50.0 for i in range(D)]])
    plb = np.array([[1.0 if i % 2 == 0 else -10.0 for i in range(D)]])
    pub = np.array([[100.0 if i % 2 == 0 else 30.0 for i in range(D)]])
    return VariableTransformer(D, lb, ub, plb, pub)


@st.composite
def histories(draw):
    D = draw(st.integers(1, 3))
    level = draw(st.sampled_from([0, 1, 2, 2]))
    cache = draw(st.integers(1, 6))
    vt = draw(st.sampled_from([None, "id", "log"]))
    pt = st.lists(st.integers(0, 4), min_size=D, max_size=D)
    kinds = ["call", "call", "call", "call_norecord"] + (["add"] if level in (0, 2) else [])
    op = scenario.record(op=st.sampled_from(kinds), pt=pt, v=st.sampled_from(VALS), sd=st.sampled_from(SDS),
                         sd_given=st.booleans())
    ops = draw(st.lists(op, min_size=1, max_size=40))
    return dict(D=D, level=level, cache=cache, vt=vt, ops=ops)


def run_history(case):
    """Execute the history on a real FunctionLogger and on the model; return (violations, labels, nontrivial)."""
    from pybads.function_logger import FunctionLogger

    D, level = case["D"], case["level"]
    vt = make_vt(case["vt"], D)
    pending = []
    seen_args = []

    def fun(x):
        seen_args.append(np.array(x, dtype=float).copy())
        v, sd = pending.pop()
        return (v, sd) if level == 2 else v

    fl = FunctionLogger(fun, D, level > 0, level, case["cache"], vt)
    model = refmodels.LoggerModel(D, level, level > 0, None if vt is None else vt.inverse_transf)
    v = []
    grown = 0
    shared_repeat = False
    size0 = len(fl.X)
    for k, o in enumerate(case["ops"]):
        x = np.array([LAT[i] for i in o["pt"]], dtype=float)
        before = len(fl.X)
        # classify before applying
        same = [r for r in model.rec if np.array_equal(r["x"], x)]
        partial = [r for r in model.rec if (not np.array_equal(r["x"], x)) and np.any(r["x"] == x)]
        try:
            if o["op"] == "add":
                sd = o["sd"] if (o["sd_given"] and level == 2) else None
                got = fl.add(x.copy(), o["v"], sd)
                exp = model.add(x, o["v"], sd)
                got_val, got_idx = got[0], got[2]
            else:
                rec = o["op"] == "call"
                pending.append((o["v"], o["sd"]))
                got = fl(x.copy(), record_duplicate_data=rec)
                exp = model.call(x, o["v"], o["sd"], rec)
                got_val, got_idx = got[0], got[2]
                xo = x if vt is None else vt.inverse_transf(x.reshape(1, -1))[0]
                if not np.allclose(seen_args[-1], xo, rtol=1e-12, atol=0):
                    v.append(viol("call:target-argument", f"op {k}: target called at {seen_args[-1].tolist()} expected {np.asarray(xo).tolist()}"))
        except Exception as e:  # noqa: BLE001
            info = harness.exc_info(e)
            v.append(viol("exception", f"op {k} {o}: {info['type']}: {info['msg']}", site=info["site"], exc_type=info["type"]))
            break
        if same and partial and o["op"] != "call_norecord":
            shared_repeat = True
        if len(fl.X) > before:
            grown += 1
        gv = float(np.asarray(got_val).ravel()[0])
        if not (gv == exp[0] or abs(gv - exp[0]) <= 1e-12 * max(1.0, abs(exp[0]))):
            v.append(viol("return:value", f"op {k} {o}: returned value {got_val!r} expected {exp[0]!r}"))
        if np.ndim(got_val) != 0:
            v.append(viol("return:value-not-scalar", f"op {k} {o}: returned value has shape {np.shape(got_val)}"))
        if got_idx != exp[1]:
            v.append(viol("return:index", f"op {k} {o}: returned index {got_idx!r} expected {exp[1]!r}"))
        for clause, detail in model.compare(fl, tag=f"after op {k} {o}:"):
            v.append(viol(clause, detail, site="level%d" % level))
        if v:
            break
    labs = [f"hist:level={level}", f"hist:vt={case['vt']}"]
    if grown:
        labs.append("hist:cache-grew")
    if shared_repeat:
        labs.append("hist:repeat-sharing-coordinate")
    nt = bool(grown and shared_repeat)
    if nt:
        labs.append("hist:nontrivial")
    return v, labs, nt


def body_hist(case):
    v, labs, nt = run_history(case)
    return dict(violations=v, labels=labs, nontrivial=nt, oracle_evals=len(case["ops"]),
                sample=dict(D=case["D"], level=case["level"], cache=case["cache"], vt=case["vt"],
                            ops=[(o["op"], o["pt"], o["v"], o["sd"]) for o in case["ops"][:12]]))


# ---------------------------------------------------------------------------------------------
PROFILE = scenario.profile(maxD=3, extra_budget=(5, 60), cons_x0=("margin",), p_cons=0.2,
                           noise_modes=("none", "auto", "declared", "specified", "specified"),
                           specified_spellings=("both", "alone"),
                           c_classes=("inside", "on_bound", "on_bound", "outside", "far"), max_iter_choices=(None, None, 3))
N = {"quick": 160, "thorough": 3000}
N_HIST = {"quick": 6000, "thorough": 200000}


def body_run(scn):
    scn = dict(scn)
    opts = dict(scn["options"])
    if "cache_size" not in opts and scn["np_seed"] % 3 == 0:
        opts["cache_size"] = 1 + scn["np_seed"] % 7  # small caches force growth during real runs
        scn["options"] = opts
    tr = harness.run(scn, want=("logger",))
    v = []
    labs = harness.run_labels(scn, tr) + ["run"]
    nt = False
    b = tr.bads
    evals = 0
    if b is not None and hasattr(b, "function_logger") and tr.ctor_exc is None:
        fl = b.function_logger
        vt = b.var_transf
        model = refmodels.LoggerModel(scn["D"], fl.uncertainty_handling_level, fl.noise_flag, vt.inverse_transf)
        ok = True
        for e in tr.events:
            if e.get("type") != "logger_call":
                continue
            if e["out"] is None:
                ok = False  # the call raised (target fault): stop modelling
                break
            c = tr.calls[e["call"] - 1]
            same = bool(model._find(e["u"]))
            if same and e["record"]:
                nt = True
            exp = model.call(e["u"], c["y"], c["sd"], e["record"])
            evals += 1
            gv = float(np.asarray(e["out"][0]).ravel()[0])
            if not abs(gv - exp[0]) <= 1e-12 * max(1.0, abs(exp[0])):
                v.append(viol("return:value", f"run: logger call {e['call']} at u={e['u'].tolist()} returned {e['out'][0]!r} expected {exp[0]!r}",
                              site="run"))
                break
        if ok and not v:
            for clause, detail in model.compare(fl, tag="run, final log:"):
                v.append(viol(clause, detail, site="run"))
    if nt:
        labs.append("run:repeat-evaluation")
    return dict(violations=v, labels=labs, nontrivial=nt, oracle_evals=evals, sample=dict(runlevel.small(scn), ncalls=len(tr.calls)))


ADV_EXCLUDE = ()


def plan(tier):
    return [("histories", 16), ("runs", 16), ("advopts", 16)] + ([("fuzz", 16)] if tier == "thorough" else [])


def run_part(res, part, tier, seed, shard, nshards):
    if part == "advopts":
        return runlevel.adv_sweep(res, PROFILE, tier, seed, shard, nshards, body_run, exclude=ADV_EXCLUDE)
    if part == "fuzz":
        # coverage-guided campaign (atheris/libFuzzer) on the same Hypothesis test, empty corpus, fixed -runs and -seed
        return engine.run_fuzz_part(res, "C12", "fuzz", 20000, seed, shard)
    if part == "histories":
        engine.hyp_sweep(res, histories(), body_hist, runlevel.shard_count(N_HIST[tier], shard, nshards), seed * 1000 + shard)
    else:
        runlevel.sweep(res, PROFILE if tier == "quick" else dict(PROFILE, maxD=5, extra_budget=(5, 200)), N[tier], seed, shard, nshards, body_run)


def minimise(part, tier, sig, case, seed):
    if part in ("runs", "advopts"):
        return runlevel.field_minimise(case, sig, body_run, max_runs=12 if tier == "quick" else 40)
    m = engine.hyp_minimise(histories(), lambda c: any(engine.signature(x) == sig for x in run_history(c)[0]), 4000, seed)
    return {"case": m or case, "note": "hypothesis shrink of the whole history" if m else "unminimised"}


def replay(part, case):
    if part in ("runs", "advopts"):
        return runlevel.replay_body(body_run, case)
    return run_history(case)[0]


def floors(tier):
    return {"hist:nontrivial": 200, "run:repeat-evaluation": 10}


def fuzz_entry(entry):
    return histories(), body_hist
