"""C13 — mesh size doubles after a successful poll (up to a cap), shrinks after a failure."""
from __future__ import annotations

import math

import numpy as np

from .. import harness, runlevel, scenario, scripts
from ..engine import viol
from . import C03

LEVEL = "exploration"
RULE = ("Two populations: natural runs of generated problems (accelerate_mesh, complete_poll, tol_mesh, all noise modes, value "
        "scales 1e-2..1e4) and phase-scripted targets that force every success/failure pattern of polls through the real "
        "_poll_step_ (natural runs almost never double the mesh). Oracle at every poll step (entry/exit snapshot) and loop "
        "probe: mesh = 2^k, k integer <= 0, consistent with optim_state; deterministic runs: success re-decided from the call "
        "log (some polled y < fval_before - max(mesh^1.5, tol_fun)) => k' = min(k+1,0) else k-1, or k-2 iff accelerate_mesh "
        "and iter > 3 and the incumbent value 3 iterations ago minus the current one < tol_fun; noisy runs: same rule on the "
        "improvements the run computed; k unchanged outside polls; search mesh <= poll mesh; tol_mesh message => mesh below "
        "2^ceil(log2 tol_mesh). Non-trivial = run with >= 1 successful and >= 1 failed poll, or an accelerated (stalled) failed poll.")
ASSUMPTIONS = [
    "default mesh options (poll_mesh_multiplier=2, max_poll_grid_number=0, tol_improvement=1, forcing_exponent=1.5, accelerate_mesh_steps=3, search_mesh_expand=0)",
    "noisy modes: the GP-based improvement values computed by the run are trusted; the update rule applied to them is checked",
]

PROFILE = scenario.profile(
    maxD=3, extra_budget=(10, 90), cons_x0=("margin", "margin", "snap_only", "boundary"), p_cons=0.2,
    max_iter_choices=(None,), tol_mesh_choices=(None, None, 1e-6, 1e-3, 0.1, 0.125, 0.0625, 0.5),
    noise_modes=("none", "none", "none", "auto", "declared", "specified"),
    # rarely used but supported controller options: unlocked search mesh, few searches per iteration
    extra_opts=(("search_size_locked", (False,), 0.15), ("search_n_try", (0, 1, 2), 0.15), ("search_mesh_increment", (2, 3), 0.15)),
)
PROFILE_T = dict(PROFILE, maxD=6, extra_budget=(10, 300))
N = {"quick": 224, "thorough": 4000}
N_SCRIPT = {"quick": 192, "thorough": 3000}
CAP = 0


def ispow2(m):
    if not (m > 0 and math.isfinite(m)):
        return False
    k = math.log2(m)
    return abs(k - round(k)) < 1e-12


def oracle(scn, tr):
    v, labs = [], []
    evals = 0
    b = tr.bads
    if b is None or not tr.steps:
        return v, 0, False, ["skipped:no-run"]
    opts = scn["options"]
    tol_fun = opts.get("tol_fun", 1e-3)
    accel = opts.get("accelerate_mesh", True)
    D = scn["D"]
    polls = [s for s in tr.steps if s["kind"] == "poll" and s["exit"] is not None and s["exc"] is None]
    # history of incumbent value at the end of each poll iteration, reconstructed from the probes
    hist_fval = {}
    for p in tr.probes:
        # the probe runs after poll_iteration was advanced (only when a poll happened and the run goes on)
        if p["finished"]:
            hist_fval[p["poll_iter"]] = p["fval"]
        elif p["do_poll"]:
            hist_fval[p["poll_iter"] - 1] = p["fval"]
    prev_exit_k = 0.0
    n_succ = n_fail = n_acc = n_cap = 0
    for s in polls:
        e, x = s["entry"], s["exit"]
        evals += 1
        for tag, sn in (("entry", e), ("exit", x)):
            k = sn["k"]
            if not (float(k).is_integer() and k <= CAP and ispow2(sn["mesh"]) and sn["mesh"] == 2.0 ** k and sn["os_mesh"] == sn["mesh"]):
                if tag == "entry" or True:
                    v.append(viol("a:mesh-not-power-of-two-or-above-cap", f"poll {s['k']} {tag}: k={k} mesh={sn['mesh']} optim_state mesh={sn['os_mesh']}"))
                    break
        if e["k"] != prev_exit_k:
            v.append(viol("c:mesh-changed-outside-poll", f"poll {s['k']} entered with k={e['k']} but previous poll left k={prev_exit_k}"))
        prev_exit_k = x["k"]
        suff = max(1.0 * e["mesh"] ** 1.5, tol_fun)
        lo, hi = s["call_lo"], s["call_hi"]
        imps = [ev for ev in tr.events[s["events_lo"]:] if ev.get("type") == "improve" and ev["phase"] == ("poll", s["k"])]
        npolled = hi - lo
        poll_imps, stall_imps = imps[:npolled], imps[npolled:]
        uhl = e["uhl"]
        if uhl == 0:
            ys = [tr.calls[i]["y"] for i in range(lo, hi)]
            best_drop = max([e["fval"] - y for y in ys], default=-math.inf)
            success = best_drop > suff
            fval_after = min([e["fval"]] + [y for y in ys if y < e["fval"]])
        else:
            success = any(ev["z"] > suff for ev in poll_imps)
            fval_after = x["fval"]
            # noisy modes: the value judged must be the GP estimate at the polled point (an independent look at the last
            # single-point GP prediction made before the improvement was evaluated), not the raw observation
            evs = tr.events[s["events_lo"]:]
            for ev in poll_imps:
                pos = next(i for i, e2 in enumerate(evs) if e2 is ev)
                pred = next((e2 for e2 in reversed(evs[:pos]) if e2.get("type") == "predict1"), None)
                lc = next((e2 for e2 in reversed(evs[:pos]) if e2.get("type") == "logger_call"), None)
                if pred is None or lc is None:
                    continue
                evals += 1
                if np.array_equal(pred["x"], lc["u"]) and not (ev["f_new"] == pred["mu"] or (np.isnan(ev["f_new"]) and np.isnan(pred["mu"]))):
                    v.append(viol("b:noisy-poll-not-judged-on-gp-estimate", f"poll {s['k']}: improvement evaluated on {ev['f_new']!r} but the GP "
                                  f"estimate at the polled point is {pred['mu']!r} (raw observation {tr.calls[lc['call'] - 1]['y']!r})"))
                    break
        it = e["iter"]
        if success:
            want = [min(e["k"] + 1, CAP)]
            n_succ += 1
            if e["k"] == CAP:
                n_cap += 1
        else:
            n_fail += 1
            stalled = None
            if accel and it > 3:
                if uhl == 0 and (it - 3) in hist_fval:
                    stalled = (hist_fval[it - 3] - fval_after) < tol_fun
                elif stall_imps:
                    stalled = stall_imps[-1]["z"] < tol_fun
            if stalled is None and accel and it > 3:
                want = [e["k"] - 1, e["k"] - 2]
            else:
                want = [e["k"] - 2] if stalled else [e["k"] - 1]
            if stalled:
                n_acc += 1
            if not accel and stall_imps:
                v.append(viol("b:stall-evaluated-with-acceleration-off", f"poll {s['k']}"))
        if x["k"] not in want:
            v.append(viol("b:mesh-update-rule", f"poll {s['k']} (iter {it}, {'noisy' if uhl else 'deterministic'}): k {e['k']} -> {x['k']}, "
                          f"expected {want}; success={success} suff={suff:.4g} fval_before={e['fval']!r} "
                          f"polled={[tr.calls[i]['y'] for i in range(lo, hi)][:6]} accel={accel}",
                          site=("success" if success else "failure") + ("/noisy" if uhl else "/det")))
    # probes: k constant when no poll; search mesh <= poll mesh
    pk = 0.0
    for p in tr.probes:
        evals += 1
        if not p["do_poll"] and p["k"] != pk:
            v.append(viol("c:mesh-changed-outside-poll", f"loop iteration {p['loop_iter']} had no poll but k went {pk} -> {p['k']}"))
            break
        pk = p["k"]
        if not (p["search_mesh"] <= p["mesh"] and ispow2(p["mesh"]) and p["mesh"] <= 1.0):
            v.append(viol("d:search-mesh-above-poll-mesh", f"loop iteration {p['loop_iter']}: search mesh {p['search_mesh']} poll mesh {p['mesh']}"))
            break
    h = b.iteration_history
    hm, hs = h.get("mesh_size"), h.get("search_mesh_size")
    if hm is not None and hs is not None:
        for i, (m_, s_) in enumerate(zip(hm, hs)):
            if m_ is None or s_ is None:
                continue
            evals += 1
            if not (float(s_) <= float(m_) and ispow2(float(m_)) and float(m_) <= 1.0):
                v.append(viol("d:history-mesh-row", f"iteration {i}: mesh_size={m_} search_mesh_size={s_}"))
                break
    r = tr.result
    if r is not None:
        if not (ispow2(float(r["mesh_size"])) and float(r["mesh_size"]) <= 1.0):
            v.append(viol("a:result-mesh-not-power-of-two", f"mesh_size={r['mesh_size']}"))
        if "options['tol_mesh']" in str(r["message"]):
            ref = 2.0 ** math.ceil(math.log2(opts.get("tol_mesh", 1e-6)))
            if not float(r["mesh_size"]) < ref:
                v.append(viol("e:tol-mesh-message-false", f"mesh_size={r['mesh_size']} ref={ref}"))
    if n_succ:
        labs.append("poll-success")
    if n_fail:
        labs.append("poll-failure")
    if n_acc:
        labs.append("poll-accelerated")
    if n_cap:
        labs.append("success-at-cap")
    if any(s["exit"]["k"] > s["entry"]["k"] for s in polls):
        labs.append("mesh-doubled")
    nt = bool((n_succ and n_fail) or n_acc)
    return v, evals, nt, labs


def body(scn):
    tr = harness.run(scn, want=("improve", "logger"))
    v, evals, nt, labs = oracle(scn, tr)
    labs = harness.run_labels(scn, tr) + labs + ["natural"]
    if nt:
        labs.append("nontrivial")
    return dict(violations=v, labels=labs, nontrivial=nt, oracle_evals=evals,
                sample=dict(runlevel.small(scn), k_path=[(s["entry"]["k"], s["exit"]["k"]) for s in tr.steps
                                                         if s["kind"] == "poll" and s["exit"]][:12]))


def body_scripted(case):
    scn, oc = case["scn"], case["script"]
    ss = scripts.make_search_script(case["search"]) if case.get("search") else None
    tr = harness.run(scn, want=("improve", "logger"), script=scripts.make_value_script(oc), search_script=ss)
    v, evals, nt, labs = oracle(scn, tr)
    labs = [("scripted:" + l) for l in labs] + ["scripted"]
    if nt:
        labs.append("nontrivial")
    return dict(violations=v, labels=labs, nontrivial=nt, oracle_evals=evals,
                sample=dict(script=oc, options=scn["options"], D=scn["D"],
                            k_path=[(s["entry"]["k"], s["exit"]["k"]) for s in tr.steps if s["kind"] == "poll" and s["exit"]][:16]))


# the statement describes the default mesh controller (powers of two, threshold max(mesh^1.5, tol_fun), acceleration after 3
# stalled steps, no grid cap): options that re-parameterise that controller are outside it
ADV_EXCLUDE = ("poll_mesh_multiplier", "max_poll_grid_number", "tol_improvement", "forcing_exponent", "accelerate_mesh_steps",
               "search_mesh_expand", "search_grid_multiplier", "search_grid_number", "sloppy_improvement",
               # StoBADS judges success by its own uncertain-interval rule, not by 'sufficient improvement'
               "stobads", "opp_stobads", "stobads_frame_size_scaling_power")


def plan(tier):
    return [("runs", 16), ("scripted", 16), ("advopts", 16)]


def run_part(res, part, tier, seed, shard, nshards):
    if part == "advopts":
        return runlevel.adv_sweep(res, PROFILE, tier, seed, shard, nshards, body, exclude=ADV_EXCLUDE)
    if part == "runs":
        runlevel.sweep(res, PROFILE if tier == "quick" else PROFILE_T, N[tier], seed, shard, nshards, body)
    else:
        prof = dict(C03.SCRIPT_PROFILE, max_iter_choices=(None,), extra_budget=(30, 120))
        if tier != "quick":
            prof = dict(prof, maxD=4, extra_budget=(30, 300))
        runlevel.sweep(res, prof, N_SCRIPT[tier], seed + 15485863, shard, nshards, body_scripted,
                       strategy=C03.scripted_cases(prof))


def minimise(part, tier, sig, case, seed):
    mr = 12 if tier == "quick" else 40
    if part in ("runs", "advopts"):
        return runlevel.field_minimise(case, sig, body, max_runs=mr)
    return runlevel.field_minimise(case, sig, body_scripted, max_runs=mr, simplifier=C03._simp_scripted)


def replay(part, case):
    return runlevel.replay_body(body_scripted if part == "scripted" else body, case)


def floors(tier):
    return {"nontrivial": 30, "scripted:mesh-doubled": 10}
