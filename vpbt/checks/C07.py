"""C07 — a fixed random_seed makes runs reproducible, independent of process history."""
from __future__ import annotations

import json
import os
import subprocess
import sys

from hypothesis import strategies as st

from .. import engine, runlevel, scenario
from ..engine import viol

LEVEL = "exploration"
TECHNIQUE = "differential testing across fresh interpreters: generated scenario x generated prior process history (Hypothesis, shrinkable op lists), bitwise comparison of the full call log and result"
RULE = ("Case = generated scenario (any geometry incl. x0 omitted, deterministic and noisy targets drawing from numpy's global "
        "generator, random_seed fixed) x generated prior history (draws from np.random through several APIs and re-seeding, "
        "unrelated BADS instances of other D/options/seeds constructed and/or run before, and others constructed or run between "
        "constructing and running the instance under test, np.seterr, np.set_printoptions and logging-level changes, a different PYTHONHASHSEED). "
        "Reference = the scenario alone in a fresh interpreter; test = history then the scenario, twice back to back, in "
        "another fresh interpreter. Every float compared bit for bit (hex): all target arguments and returned values, x, fval, "
        "fsd, func_count, message, iterations, mesh_size, yval_vec and the (possibly random) x0. Non-trivial = history with >= 1 "
        "foreign run of a different D and >= 1 RNG consumption between construction and optimize(), scenario with >= 1 search step.")
ASSUMPTIONS = [
    "single BLAS thread (OMP/OPENBLAS/MKL_NUM_THREADS=1) in every process, same machine",
    "noisy targets draw their noise from numpy's global generator (the statement's own condition)",
]

PROFILE = scenario.profile(maxD=3, extra_budget=(5, 45), cons_x0=("margin",), p_cons=0.15, p_seed_none=0.0, p_x0_none=0.3,
                           noise_modes=("none", "auto", "declared", "specified"), specified_spellings=("both", "alone"),
                           max_iter_choices=(None, None, 4), tol_mesh_choices=(None,), extra_options=False, p_seed_numpy=0.25,
                           # non-default search settings: state cached across instances would show here
                           extra_opts=(("n_search_iter", (3,), 0.2), ("n_search", (2**10, 2**11), 0.15)))
FOREIGN = scenario.profile(maxD=4, extra_budget=(0, 12), cons_x0=("margin",), p_cons=0.1, p_seed_none=0.5, p_x0_none=0.2,
                           noise_modes=("none", "declared", "specified"), specified_spellings=("both",), max_iter_choices=(2, None),
                           tol_mesh_choices=(None,), extra_options=False,
                           extra_opts=(("n_search_iter", (3, 4), 0.3), ("n_search", (2**9, 2**11), 0.3), ("es_beta", (0.5,), 0.2)))
N = {"quick": 96, "thorough": 1500}


@st.composite
def ops(draw):
    kind = draw(st.sampled_from(["rng", "rng", "run_foreign", "construct_foreign", "seterr", "logging", "printoptions"]))
    if kind == "printoptions":
        # process-wide NumPy display settings (summarisation threshold, line width, precision): pure presentation state
        return ["printoptions", draw(st.sampled_from([dict(threshold=1, edgeitems=1), dict(threshold=2, edgeitems=1), dict(linewidth=8),
                                                      dict(precision=3, suppress=True), dict(threshold=0, edgeitems=2, linewidth=20),
                                                      dict(sign="+"), dict(sign=" "), dict(sign="+", floatmode="fixed", precision=2)]))]
    if kind == "rng":
        return ["rng", draw(st.sampled_from(["rand", "randn", "randint", "permutation", "seed", "uniform"])), draw(st.integers(1, 1000))]
    if kind in ("run_foreign", "construct_foreign"):
        return [kind, draw(scenario.scenario(FOREIGN))]
    if kind == "seterr":
        return ["seterr", draw(st.sampled_from(["ignore", "warn"]))]
    return ["logging", draw(st.sampled_from([10, 20, 30, 50]))]


@st.composite
def cases(draw):
    # 0-2 advanced options at non-default values: other code paths, same obligation
    scn = draw(scenario.with_adv_opts(PROFILE, kmin=0, kmax=2))
    before = draw(st.lists(ops(), min_size=0, max_size=4))
    between = draw(st.lists(ops(), min_size=0, max_size=3))
    return dict(scn=scn, history=dict(before=before, between=between), hashseed=draw(st.sampled_from(["0", "1", "12345", "random"])))


def spawn(job, hashseed="0"):
    env = dict(os.environ)
    env["PYTHONHASHSEED"] = hashseed
    env["PYTHONPATH"] = os.pathsep.join([engine.repo_dir(), engine.VERIF_DIR])
    p = subprocess.run([sys.executable, "-m", "vpbt.c07_runner"], input=json.dumps(job, default=str), capture_output=True, text=True,
                       env=env, cwd=engine.VERIF_DIR, timeout=1500)
    if p.returncode != 0 or not p.stdout.strip():
        raise RuntimeError("runner failed: " + p.stderr[-1500:])
    return json.loads(p.stdout)


def diff(a, b):
    """First difference between two observations (dicts from the runner)."""
    for key in ("exception", "x0", "result"):
        if a.get(key) != b.get(key):
            if key == "result" and a.get(key) and b.get(key):
                ks = [k for k in a[key] if a[key][k] != b[key].get(k)]
                return f"result fields {ks}: {[(a[key][k], b[key][k]) for k in ks][:2]}"
            return f"{key}: {a.get(key)} vs {b.get(key)}"
    ca, cb = a["calls"], b["calls"]
    for i, (x, y) in enumerate(zip(ca, cb)):
        if x != y:
            return f"call {i + 1} of {len(ca)}/{len(cb)}: {x} vs {y}"
    if len(ca) != len(cb):
        return f"number of target calls {len(ca)} vs {len(cb)}"
    return None


def body(case):
    scn = case["scn"]
    ref = spawn(dict(scn=scn, repeats=1), "0")["runs"][0]
    test = spawn(dict(scn=scn, history=case["history"], repeats=2), case["hashseed"])["runs"]
    v = []
    d1 = diff(ref, test[0])
    if d1:
        site = "first-call" if d1.startswith("call 1 ") else ("x0" if d1.startswith("x0") else "")
        v.append(viol("history-dependence", f"run after the history differs from the run alone in a fresh interpreter: {d1}", site=site))
    d2 = diff(ref, test[1])
    if d2 and not d1:
        v.append(viol("second-run-in-same-process", f"second run of the same instance definition in one process differs: {d2}"))
    h = case["history"]
    allops = h["before"] + h["between"]
    foreign_D = any(o[0] == "run_foreign" and o[1]["D"] != scn["D"] for o in allops)
    rng_between = any(o[0] == "rng" or o[0] == "run_foreign" for o in h["between"])
    nt = bool(foreign_D and rng_between and ref.get("nsearch", 0) >= 1)
    labs = [f"noise={scn['target']['noise']['mode']}", f"D={scn['D']}"]
    labs += ["x0=none"] if scn["x0"] is None else []
    labs += ["hist:foreign-run-other-D"] if foreign_D else []
    labs += ["hist:rng-between"] if rng_between else []
    labs += ["hist:empty"] if not allops else []
    labs += ["hashseed=" + case["hashseed"]]
    labs += ["ref:exception"] if "exception" in ref else []
    labs += [f"opt:{n}" for n in scn.get("adv", [])] + (["advopts"] if scn.get("adv") else [])
    if nt:
        labs.append("nontrivial")
    return dict(violations=v, labels=labs, nontrivial=nt, oracle_evals=2 * len(ref["calls"]) + 16,
                sample=dict(runlevel.small(scn), history=[[o[0]] + ([o[1], o[2]] if o[0] == "rng" else ([o[1]["D"]] if "foreign" in o[0] else [o[1]]))
                                                          for o in allops], ncalls=len(ref["calls"])))


def plan(tier):
    return [("processes", 16)]


def run_part(res, part, tier, seed, shard, nshards):
    runlevel.sweep(res, None, N[tier], seed, shard, nshards, body, strategy=cases(), case_timeout=3000)


def _simp(c):
    h = c["history"]
    for part in ("before", "between"):
        for i in range(len(h[part])):
            yield f"drop {part}[{i}]", dict(c, history=dict(h, **{part: h[part][:i] + h[part][i + 1:]}))
    for d, s2 in scenario.simplifications(c["scn"]):
        if "random_seed" in s2["options"]:
            yield d, dict(c, scn=s2)


def minimise(part, tier, sig, case, seed):
    return runlevel.field_minimise(case, sig, body, max_runs=10 if tier == "quick" else 40, simplifier=_simp)


def replay(part, case):
    return body(case)["violations"]


def floors(tier):
    return {"nontrivial": 5}
