"""C18 — the search step evaluates the acquisition-optimal candidate, once."""
from __future__ import annotations

import numpy as np
from hypothesis import strategies as st

from .. import engine, harness, runlevel, scenario
from .. import targets as T
from ..engine import viol

LEVEL = "exploration"
RULE = ("(i) every search step of generated natural runs (constraints that thin the ES population included), seen through the "
        "acquisition, ES and hedge seams: the proposal's acquisition value is the minimum over every acquisition value computed "
        "in that ES call and the proposal is a candidate carrying it, and the point the step then evaluates is that proposal; every candidate handed to the acquisition lies in the "
        "mesh-rounded search box and is feasible; <= 1 target call per search step; hedge probabilities finite, sum to 1, each "
        ">= the exploration floor, chosen index valid. (ii) exhaustive rank-selection mask for all 1 <= mu, lambda <= 300 (600 in "
        "the thorough tier): no exception, long enough, every index used for reproduction is a valid parent (mask[k] <= k, "
        "< population), starts at 0, non-decreasing with steps <= 1. (iii) generated hedge histories (call/update sequences with "
        "|f| <= 1e8, mesh 2^[-30,0], exploration floor gamma in {1/32, 1/8, 1/4}, ES classes stubbed, the uniform variate of the draw real or scripted to 0, 0.5, 1-2^-53). Non-trivial = search step whose surviving first "
        "generation is < 25% of the generated one or whose winner came from the second generation; hedge history >= 5 updates.")
ASSUMPTIONS = [
    "LCB values are those returned at the acq_fcn_lcb seam inside the ES call (their formula is C15's business)",
    "hedge histories use bounded magnitudes (|f| <= 1e8); overflow beyond that is out of scope",
    "hedge_gamma = 0 (full-information hedge, a non-default path that needs a real GP prediction per strategy) is not generated",
    "nothing is demanded of the selection mask beyond validity of the parent indices (the statement names no distribution over parents)",
]

PROFILE = scenario.profile(maxD=3, extra_budget=(10, 60), cons_x0=("margin",), p_cons=0.45, max_iter_choices=(None,),
                           tol_mesh_choices=(None,), c_classes=("inside", "on_bound", "outside", "hardbox"),
                           # rarely used but supported: a user-supplied annealing schedule for the LCB
                           extra_opts=(("search_acq_fcn", ({"__callable__": "lcb_schedule", "k": 0.5}, {"__callable__": "lcb_schedule", "k": 2.0},
                                                          {"__callable__": "lcb_const", "v": 1.5}), 0.25),
                                       # the search mesh follows the poll mesh instead of staying at its initial size
                                       ("search_size_locked", (False,), 0.25)))
N = {"quick": 160, "thorough": 3000}
N_THIN = {"quick": 64, "thorough": 1200}
THIN_PROFILE = dict(PROFILE, extra_budget=(10, 40))
N_HEDGE = {"quick": 3000, "thorough": 100000}
MASK_MAX = {"quick": 300, "thorough": 600}


def run_oracle(scn, tr):
    v, labs = [], []
    evals = 0
    nt = False
    vt = getattr(tr.bads, "var_transf", None) if tr.bads is not None else None
    cs = dict(scn["cons"], ret="real") if scn.get("cons") else None
    ev = tr.events
    for s in tr.steps:
        if s["kind"] != "search":
            continue
        evals += 1
        if s["call_hi"] - s["call_lo"] > 1:
            v.append(viol("c:more-than-one-evaluation", f"search step {s['k']} made {s['call_hi'] - s['call_lo']} target calls"))
    for i, e in enumerate(ev):
        if e.get("type") == "hedge":
            evals += 1
            p = np.asarray(e["prob"], dtype=float)
            ok = np.all(np.isfinite(p)) and abs(p.sum() - 1.0) <= 1e-12 and np.all(p >= e["gamma"] - 1e-15) and np.all(p <= 1 + 1e-15)
            ch = np.asarray(e["chosen"]).ravel()
            ok = ok and ch.size == 1 and 0 <= int(ch[0]) < e["n_funs"]
            if not ok:
                v.append(viol("d:hedge-distribution", f"prob={p.tolist()} gamma={e['gamma']} chosen={ch.tolist()} g={e['g'].tolist()}", site="run"))
        if e.get("type") != "es_call":
            continue
        acqs = [a for a in ev[e["lo"]:i] if a.get("type") == "acq" and a["where"] == "es"]
        evals += 1
        if not acqs:
            continue
        zs = [np.asarray(a["z"], dtype=float).ravel() for a in acqs]
        allz = np.concatenate(zs)
        allx = np.vstack([a["xi"] for a in acqs if a["xi"] is not None and len(a["xi"])]) if any(len(a["xi"]) for a in acqs) else np.empty((0, scn["D"]))
        if allz.size == 0:
            continue
        # the acquisition values themselves are re-derived from the independent GP prediction recorded at the seam
        sched = scn["options"].get("search_acq_fcn")
        for a in acqs:
            if a["xi"] is None or not len(a["xi"]):
                continue
            tt = a["func_count"] + 1
            if isinstance(sched, dict) and sched["__callable__"] == "lcb_const":
                sb = float(sched["v"])
            elif isinstance(sched, dict):
                sb = sched["k"] * np.sqrt(0.2 * 2 * np.log(a["D"] * tt**2 * np.pi**2 / 0.6))
            else:
                sb = np.sqrt(0.2 * 2 * np.log(a["D"] * tt**2 * np.pi**2 / 0.6))
            ref = (np.asarray(a["mu"], dtype=float) - sb * np.sqrt(np.asarray(a["s2"], dtype=float))).ravel()
            zz = np.asarray(a["z"], dtype=float).ravel()
            okz = np.isclose(zz, ref, rtol=1e-9, atol=1e-12) | (np.isnan(zz) & np.isnan(ref))
            if not np.all(okz):
                j = int(np.argmax(~okz))
                v.append(viol("a:acquisition-value-not-lcb", f"{e['cls']}: ranked value {zz[j]!r} but mean - {sb:.6g}*sd = {ref[j]!r} "
                              f"({'user setting %s' % sched if isinstance(sched, dict) else 'default schedule'}, t={tt}, D={a['D']})",
                              site="custom-schedule" if isinstance(sched, dict) else "default"))
                break
        zmin = np.nanmin(allz) if np.any(~np.isnan(allz)) else np.nan
        zstar = e["z"]
        us = np.asarray(e["us"], dtype=float).ravel()
        if not (zstar == zmin or (np.isnan(zstar) and np.isnan(zmin))):
            v.append(viol("a:proposal-not-acquisition-minimum", f"{e['cls']}: proposal z={zstar!r} but min over {allz.size} acquisition values is {zmin!r}"))
        else:
            idx = np.where(allz == zstar)[0]
            if idx.size and not any(np.array_equal(allx[j], us) for j in idx):
                v.append(viol("a:proposal-not-the-minimising-candidate", f"{e['cls']}: proposal {us.tolist()} is not a candidate with z={zstar!r}"))
        # what the search step then evaluates is that proposal (nothing re-rounds or replaces it on the way to the target)
        ph = e.get("phase")
        if ph and ph[0] == "search" and vt is not None and us.size == scn["D"]:
            cl = [c for c in tr.calls if c["phase"] == "search" and c["step"] == ph[1]]
            if cl:
                evals += 1
                xp = np.asarray(vt.inverse_transf(np.atleast_2d(us)), dtype=float).ravel()
                # (tolerance on the scale of the coordinate: next to a bound x = m + w*u cancels, and re-rounding u to a mesh that
                # is not a power of two moves it by an ulp)
                sc = np.array([max(abs(c_["plb"]), abs(c_["pub"]), c_["pub"] - c_["plb"]) for c_ in scn["coords"]], dtype=float)
                if not np.all(np.abs(cl[0]["x"] - xp) <= 1e-10 * np.abs(xp) + 1e-12 * sc):
                    v.append(viol("a:evaluated-point-not-the-proposal", f"{e['cls']}: search step {ph[1]} evaluated {cl[0]['x'].tolist()} but the "
                                  f"strategy proposed {xp.tolist()} (search mesh {e['search_mesh']})"))
                labs.append("search:proposal-evaluated")
        # the mesh-rounded box is recomputed here from the transformed hard bounds and the current search mesh
        # (mesh nodes inside [lb, ub]); the box stored by the run is only reported, not trusted
        h_ = e["search_mesh"]
        lo = np.where(np.isfinite(e["lb"]), h_ * np.ceil(e["lb"] / h_ - 1e-9), -np.inf)
        hi = np.where(np.isfinite(e["ub"]), h_ * np.floor(e["ub"] / h_ + 1e-9), np.inf)
        # (meshes that are not powers of two - poll_mesh_multiplier = 3 - are not exact in floating point: relative tolerance)
        off = np.abs(allx / h_ - np.round(allx / h_)) > np.maximum(1e-6, 16 * np.finfo(float).eps * np.abs(allx / h_)) if allx.size else np.zeros((0, 1), bool)
        if allx.size and np.any(off):
            j = int(np.argmax(np.any(off, axis=1)))
            v.append(viol("b:candidate-off-the-search-mesh", f"{e['cls']}: candidate {allx[j].tolist()} is not a node of the search mesh {h_}"))
        # (a few ulps of slack: h * ceil(lb / h) and the run's own lb_search + h differ in the last bit when h is not a power of two)
        slk = 8 * np.finfo(float).eps * np.maximum(1.0, np.abs(allx)) if allx.size else 0.0
        if allx.size and not (np.all(allx >= lo - slk) and np.all(allx <= hi + slk)):
            bad = allx[~np.all((allx >= lo - slk) & (allx <= hi + slk), axis=1)][0]
            v.append(viol("b:candidate-outside-search-box", f"{e['cls']}: candidate {bad.tolist()} outside [{lo.tolist()}, {hi.tolist()}]"))
        if cs is not None and vt is not None and allx.size:
            c = T.violation(cs, vt.inverse_transf(allx))
            if np.any(c > 1e-9):
                v.append(viol("b:infeasible-candidate-ranked", f"{e['cls']}: candidate {allx[int(np.argmax(c))].tolist()} violates the constraint by {c.max():.3g}"))
        n1 = zs[0].size
        thin = n1 < 0.25 * e["mu"]
        second = len(zs) > 1 and zs[1].size and np.nanmin(zs[1]) == zstar and not (n1 and np.nanmin(zs[0]) == zstar)
        if thin:
            labs.append("es:thinned<25%")
        if second:
            labs.append("es:winner-from-2nd-generation")
        if n1 == 0:
            labs.append("es:zero-survivors")
        if n1 and any(z.size == 0 for z in zs[1:]):
            labs.append("es:later-generation-empty")
        if 0 < n1 <= 3:
            labs.append("es:1-3-survivors")
        nt = nt or bool(thin or second)
    return v, evals, nt, sorted(set(labs))


@st.composite
def thinned_cases(draw, prof):
    """A natural scenario plus a script that cuts the ES populations down to a few or zero survivors: entry n of the
    script applies to the n-th generation filtered in the run (None = untouched)."""
    scn = draw(scenario.scenario(prof))
    scn["es_thin"] = draw(st.lists(st.sampled_from([None, None, 0, 0, 1, 2, 3]), min_size=2, max_size=6))
    return scn


def body_run(scn):
    tr = harness.run(scn, want=("acq", "es"), es_thin=scn.get("es_thin"))
    v, evals, nt, labs = run_oracle(scn, tr)
    labs = harness.run_labels(scn, tr) + labs + ["run"]
    if nt:
        labs.append("run:nontrivial")
    return dict(violations=v, labels=labs, nontrivial=nt, oracle_evals=evals, sample=dict(runlevel.small(scn), ncalls=len(tr.calls)))


# ---------------------------------------------------------------------------------------------
def mask_oracle(mu, lamb, es):
    try:
        m = np.asarray(es._get_selection_idx_mask_(mu, lamb))
    except Exception as e:  # noqa: BLE001
        info = harness.exc_info(e)
        return [viol("mask:exception", f"mu={mu} lambda={lamb}: {info['type']}: {info['msg']}", site=info["site"], exc_type=info["type"])]
    ll = min(lamb, mu)
    if m.ndim != 1 or len(m) < ll:
        return [viol("mask:too-short", f"mu={mu} lambda={lamb}: mask length {len(m)} < {ll}")]
    if not np.issubdtype(m.dtype, np.integer):
        return [viol("mask:not-integer", f"mu={mu} lambda={lamb}: dtype {m.dtype}")]
    use = m[:ll]
    if ll and (use[0] != 0 or np.any(use < 0) or np.any(use >= mu) or np.any(use > np.arange(ll))):
        return [viol("mask:invalid-parent-index", f"mu={mu} lambda={lamb}: mask[:{ll}]={use[:12].tolist()}...")]
    d = np.diff(m)
    if np.any(d < 0) or np.any(d > 1):
        return [viol("mask:not-nondecreasing-unit-steps", f"mu={mu} lambda={lamb}: steps {sorted(set(d.tolist()))}")]
    return []


def run_mask(res, tier, shard, nshards):
    from pybads.search.es_search import ESSearchWM

    opts = {"poll_mesh_multiplier": 2.0, "es_start": 0.25, "n_search_iter": 2, "search_acq_fcn": ("acq_LCB", None), "es_beta": 1}
    es = ESSearchWM(8, 8, opts)
    M = MASK_MAX[tier]
    for mu in range(1, M + 1):
        if mu % nshards != shard:
            continue
        for lamb in range(1, M + 1):
            v = mask_oracle(mu, lamb, es)
            nt = mu >= 2 and lamb >= 2
            res.add_case(dict(mu=mu, lamb=lamb), v, labels=["mask"], nontrivial=nt, oracle_evals=1, max_samples=1)
    res.exhaustive = True


# ---------------------------------------------------------------------------------------------
@st.composite
def hedge_histories(draw):
    gamma = draw(st.sampled_from([0.125, 0.125, 0.03125, 0.25]))
    tol_fun = draw(st.sampled_from([1e-3, 1e-6, 1.0]))
    D = draw(st.integers(1, 3))
    mag = st.sampled_from([0.0, 1e-8, 1e-3, 1.0, 37.5, 1e4, 1e8])
    sign = st.sampled_from([1.0, -1.0])
    step = scenario.record(fval_old=st.tuples(mag, sign), f=st.tuples(mag, sign), fs=st.sampled_from([0.0, 1e-8, 1e-3, 1.0, 1e4, 1e8]),
                                      mesh_exp=st.integers(-30, 0), gp_f=st.tuples(mag, sign), gp_s2=st.sampled_from([0.0, 1e-12, 1.0, 1e6]),
                           update=st.sampled_from([True, True, True, False]),
                           # the uniform variate of the strategy draw: real, or one of the extreme values rand() can return
                           u=st.sampled_from([None, None, None, 0.0, 1.0 - 2.0**-53, 0.5]))
    return dict(gamma=gamma, tol_fun=tol_fun, D=D, seed=draw(st.integers(0, 2**31 - 1)), steps=draw(st.lists(step, min_size=1, max_size=30)))


def run_hedge(case):
    import pybads.search.search_hedge as SH

    D = case["D"]
    opts = {"hedge_gamma": case["gamma"], "hedge_beta": 1e-3 / case["tol_fun"], "hedge_decay": 0.1 ** (1 / (2 * D)),
            "n_search_iter": 2, "n_search": 2**12}
    ret = {"u": np.zeros(D), "z": np.array(0.0)}

    class Stub:
        def __init__(self, mu, lamb, options_dict):
            pass

        def __call__(self, *a, **k):
            return ret["u"], ret["z"]

    class GPStub:
        def __init__(self):
            self.f, self.s2 = 0.0, 1.0

        def predict(self, x):
            return np.array([[self.f]]), np.array([[self.s2]])

    old = SH.ESSearchWM, SH.ESSearchELL
    v = []
    nupd = 0
    try:
        SH.ESSearchWM = SH.ESSearchELL = Stub
        np.random.seed(case["seed"])
        h = SH.ESSearchHedge([("ES-wcm", 1), ("ES-ell", 1)], opts, None)
        gp = GPStub()
        for k, s in enumerate(case["steps"]):
            real_rand = np.random.rand
            try:
                if s.get("u") is not None:
                    np.random.rand = lambda *a, _u=s["u"]: _u  # noqa: E731
                try:
                    h(np.zeros(D), None, None, None, gp, {})
                finally:
                    np.random.rand = real_rand
            except Exception as e:  # noqa: BLE001
                info = harness.exc_info(e)
                v.append(viol("d:hedge-exception", f"step {k}: {info['type']}: {info['msg']} g={h.g.tolist()}", site=info["site"], exc_type=info["type"]))
                break
            p = np.asarray(h.prob, dtype=float)
            ch = np.asarray(h.chosen_hedge).ravel()
            if not (np.all(np.isfinite(p)) and abs(p.sum() - 1) <= 1e-12 and np.all(p >= case["gamma"] - 1e-15) and ch.size == 1 and 0 <= int(ch[0]) < 2):
                v.append(viol("d:hedge-distribution", f"step {k}: prob={p.tolist()} gamma={case['gamma']} chosen={ch.tolist()} g={h.g.tolist()}", site="history"))
                break
            if s["update"]:
                gp.f, gp.s2 = s["gp_f"][0] * s["gp_f"][1], s["gp_s2"]
                try:
                    h.update_hedge(np.zeros(D), s["fval_old"][0] * s["fval_old"][1], s["f"][0] * s["f"][1], s["fs"], gp, 2.0 ** s["mesh_exp"])
                    nupd += 1
                except Exception as e:  # noqa: BLE001
                    info = harness.exc_info(e)
                    v.append(viol("d:hedge-exception", f"update {k}: {info['type']}: {info['msg']}", site=info["site"], exc_type=info["type"]))
                    break
    finally:
        SH.ESSearchWM, SH.ESSearchELL = old
    return v, nupd


def body_hedge(case):
    v, nupd = run_hedge(case)
    nt = nupd >= 5
    return dict(violations=v, labels=["hedge", f"hedge:gamma={case['gamma']}"] + (["hedge:>=5updates"] if nt else []), nontrivial=nt,
                oracle_evals=len(case["steps"]), sample=dict(gamma=case["gamma"], tol_fun=case["tol_fun"], steps=case["steps"][:4]))


ADV_EXCLUDE = ()


def plan(tier):
    return [("mask", 16), ("hedge", 8), ("runs", 16), ("thinned", 16), ("advopts", 16)] + ([("fuzz", 16)] if tier == "thorough" else [])


def run_part(res, part, tier, seed, shard, nshards):
    if part == "advopts":
        return runlevel.adv_sweep(res, PROFILE, tier, seed, shard, nshards, body_run, exclude=ADV_EXCLUDE)
    if part == "fuzz":
        # coverage-guided campaign (atheris/libFuzzer) on the same Hypothesis test, empty corpus, fixed -runs and -seed
        return engine.run_fuzz_part(res, "C18", "fuzz", 20000, seed, shard)
    if part == "mask":
        run_mask(res, tier, shard, nshards)
    elif part == "hedge":
        engine.hyp_sweep(res, hedge_histories(), body_hedge, runlevel.shard_count(N_HEDGE[tier], shard, nshards), seed * 1000 + 700 + shard)
    elif part == "thinned":
        runlevel.sweep(res, None, N_THIN[tier], seed, shard, nshards, body_run, strategy=thinned_cases(THIN_PROFILE))
    else:
        runlevel.sweep(res, PROFILE if tier == "quick" else dict(PROFILE, maxD=5, extra_budget=(10, 200)), N[tier], seed, shard, nshards, body_run)


def minimise(part, tier, sig, case, seed):
    if part in ("runs", "thinned", "advopts"):
        return runlevel.field_minimise(case, sig, body_run, max_runs=12 if tier == "quick" else 40)
    if part in ("hedge", "fuzz"):
        m = engine.hyp_minimise(hedge_histories(), lambda c: any(engine.signature(x) == sig for x in run_hedge(c)[0]), 4000, seed)
        return {"case": m or case, "note": "hypothesis shrink" if m else "unminimised"}
    return {"case": case, "note": "exhaustive (mu, lambda) cell"}


def replay(part, case):
    if part in ("runs", "thinned", "advopts"):
        return runlevel.replay_body(body_run, case)
    if part in ("hedge", "fuzz"):
        return run_hedge(case)[0]
    from pybads.search.es_search import ESSearchWM

    opts = {"poll_mesh_multiplier": 2.0, "es_start": 0.25, "n_search_iter": 2, "search_acq_fcn": ("acq_LCB", None), "es_beta": 1}
    return mask_oracle(case["mu"], case["lamb"], ESSearchWM(8, 8, opts))


def floors(tier):
    return {"run:nontrivial": 10, "hedge:>=5updates": 300, "es:later-generation-empty": 10, "es:1-3-survivors": 10}


def fuzz_entry(entry):
    return hedge_histories(), body_hedge
