"""C19 — iteration history and OptimizeResult are consistent records of the run."""
from __future__ import annotations

import copy

import numpy as np
from hypothesis import strategies as st

from .. import engine, harness, runlevel, scenario
from ..engine import viol

LEVEL = "exploration"
RULE = ("(i) generated runs in all noise modes: every recorded iteration's x is an evaluated point and its recorded observed value "
        "is a value observed there (specified noise: within the range of the observations made there); recorded func_count "
        "non-decreasing and <= final; result.x is a recorded iterate (the last, same value, for deterministic targets); "
        "OptimizeResult: fixed key set across runs and modes containing every documented field, readable by key and attribute, "
        "unknown keys rejected, copies independent of the optimiser, x0/problem_type/target_type/random_seed/func_count/"
        "mesh_size agree with the problem and final state. (ii) generated operation histories on IterationHistory against a "
        "dict-of-lists model (deep copies, unknown keys, negative iterations, growth). Non-trivial = run with >= 5 recorded "
        "iterations, or a noisy run with >= 3; container history with >= 1 growth and >= 1 mutation-after-record.")
ASSUMPTIONS = [
    "recorded points are matched to the call log within 1e-12 of the box width (exact in practice)",
    "the documented field list is the class docstring of OptimizeResult plus target_type (named in the statement)",
]

PROFILE = scenario.profile(maxD=3, extra_budget=(20, 90), cons_x0=("margin",), p_cons=0.2,
                           noise_modes=("none", "auto", "declared", "declared", "specified", "specified"),
                           specified_spellings=("both", "alone"), max_iter_choices=(None, None, 4, 8), tol_mesh_choices=(None,),
                           c_classes=("inside", "inside", "hardbox", "on_bound", "outside"), p_seed_numpy=0.2)
N = {"quick": 224, "thorough": 4000}
N_HIST = {"quick": 3000, "thorough": 100000}

DOCUMENTED = ["fun", "non_box_cons", "x0", "x", "fval", "fsd", "yval_vec", "ysd_vec", "mesh_size", "func_count", "iterations", "message",
              "problem_type", "total_time", "overhead", "random_seed", "version", "target_type"]
EXPECTED_KEYS = sorted(DOCUMENTED + ["success", "algorithm"])


def run_oracle(scn, tr):
    v, labs = [], []
    evals = 0
    b, r = tr.bads, tr.result
    if b is None or r is None:
        return v, 0, False, ["skipped:no-result"]
    wid = harness.widths(scn)
    xs = np.array([c["x"] for c in tr.calls])
    ys = np.array([c["y"] for c in tr.calls], dtype=float)
    mode = scn["target"]["noise"]["mode"]
    uhl = int(b.optim_state["uncertainty_handling_level"])
    h = b.iteration_history
    hx, hy, hfc = h.get("x"), h.get("yval"), h.get("func_count")
    nrec = 0
    rec_x = []
    if hx is not None:
        for i in range(len(hx)):
            if hx[i] is None:
                continue
            nrec += 1
            evals += 1
            xi = np.asarray(hx[i], dtype=float).ravel()
            rec_x.append(xi)
            d = np.max(np.abs(xs - xi) / (wid + 1e-300), axis=1)
            at = np.where(d <= 1e-12)[0]
            if at.size == 0:
                v.append(viol("hist:x-not-evaluated", f"iteration {i}: recorded x={xi.tolist()} was never evaluated"))
                break
            yv = float(np.asarray(hy[i]).ravel()[0])
            obs = ys[at]
            if b.function_logger.he_noise_flag:
                ok = obs.min() - 1e-12 * max(1, abs(obs.min())) <= yv <= obs.max() + 1e-12 * max(1, abs(obs.max()))
            else:
                ok = bool(np.any(obs == yv))
            if not ok:
                v.append(viol("hist:yval-not-observed-at-x", f"iteration {i}: recorded yval={yv!r} at x={xi.tolist()} but observations there were "
                              f"{obs.tolist()[:6]}", site="noisy" if uhl else "deterministic"))
                break
    if hfc is not None:
        fc = [int(x) for x in hfc if x is not None]
        evals += len(fc)
        if any(a > b_ for a, b_ in zip(fc, fc[1:])):
            v.append(viol("hist:func-count-decreases", f"func_count history {fc}"))
        if fc and max(fc) > r["func_count"]:
            v.append(viol("hist:func-count-exceeds-final", f"history {fc} final {r['func_count']}"))
    rx = np.asarray(r["x"], dtype=float).ravel()
    if rec_x:
        evals += 1
        dd = [np.max(np.abs(xi - rx) / (wid + 1e-300)) for xi in rec_x]
        if min(dd) > 1e-12:
            v.append(viol("result:x-not-a-recorded-iterate", f"x={rx.tolist()} recorded iterates={[x.tolist() for x in rec_x[-4:]]}"))
        elif uhl == 0:
            if dd[-1] > 1e-12:
                v.append(viol("result:x-not-last-iterate", f"deterministic: x={rx.tolist()} last recorded={rec_x[-1].tolist()}"))
            else:
                last_y = [float(np.asarray(y).ravel()[0]) for y in hy if y is not None][-1]
                if last_y != float(r["fval"]):
                    v.append(viol("result:fval-differs-from-last-record", f"fval={r['fval']!r} last recorded yval={last_y!r}"))
    # --- result object ---
    evals += 5
    keys = sorted(dict.keys(r))
    if keys != EXPECTED_KEYS:
        v.append(viol("result:key-set", f"missing={sorted(set(EXPECTED_KEYS) - set(keys))} extra={sorted(set(keys) - set(EXPECTED_KEYS))}",
                      site=mode))
    for k in keys:
        try:
            a, c = r[k], getattr(r, k)
            if a is not c and not (isinstance(a, np.ndarray) and np.array_equal(a, c, equal_nan=True)) and a != c:
                v.append(viol("result:key-attribute-differ", f"{k}"))
        except Exception as e:  # noqa: BLE001
            v.append(viol("result:field-not-readable", f"{k}: {type(e).__name__}", site=k))
    try:
        r["no_such_field"]
        v.append(viol("result:unknown-key-readable", "r['no_such_field'] returned"))
    except KeyError:
        pass
    try:
        r.no_such_field
        v.append(viol("result:unknown-attribute-readable", "r.no_such_field returned"))
    except AttributeError:
        pass
    try:
        r["no_such_field"] = 1
        v.append(viol("result:unknown-key-writable", "r['no_such_field'] = 1 accepted"))
    except ValueError:
        pass
    except Exception as e:  # noqa: BLE001
        v.append(viol("result:unknown-key-wrong-exception", type(e).__name__))
    # the other ways a dict takes new keys
    for how, key, fn in (("update", "no_such_field2", lambda: r.update({"no_such_field2": 1})),
                         ("update-kw", "no_such_field3", lambda: r.update(no_such_field3=1)),
                         ("setdefault", "no_such_field4", lambda: r.setdefault("no_such_field4", 1)),
                         ("ior", "no_such_field5", lambda: r.__ior__({"no_such_field5": 1})),
                         ("setattr", "no_such_field6", lambda: setattr(r, "no_such_field6", 1))):
        try:
            fn()
        except ValueError:
            pass
        except Exception as e:  # noqa: BLE001
            v.append(viol("result:unknown-key-wrong-exception", f"{how}: {type(e).__name__}", site=how))
        if key in dict.keys(r) or key in vars(r):
            v.append(viol("result:unknown-key-writable", f"r.{how}(...) added the unknown key {key!r}", site=how))
            dict.pop(r, key, None)
            vars(r).pop(key, None)
    # attribute assignment and item assignment are the same thing (as in scipy's OptimizeResult)
    old_fc = r["func_count"]
    try:
        r.func_count = old_fc + 1000
        if r["func_count"] != r.func_count:
            v.append(viol("result:key-attribute-differ", f"after r.func_count = {old_fc + 1000}: r['func_count']={r['func_count']!r}, r.func_count={r.func_count!r}",
                          site="setattr"))
    except Exception as e:  # noqa: BLE001
        v.append(viol("result:field-not-writable-by-attribute", f"{type(e).__name__}: {e}", site="setattr"))
    vars(r).pop("func_count", None)
    r["func_count"] = old_fc
    # copies
    bx = np.array(b.x, copy=True)
    rx0 = np.array(r["x"], copy=True)
    r["x"][...] = 123456.0
    if not np.array_equal(np.asarray(b.x), bx):
        v.append(viol("result:x-aliases-optimizer-state", "writing into result['x'] changed bads.x"))
    r["x"][...] = rx0
    b.x[...] = -98765.0
    b.x0[...] = -98765.0
    if not np.array_equal(np.asarray(r["x"]), rx0) or np.any(np.asarray(r["x0"]) == -98765.0):
        v.append(viol("result:not-a-copy", "writing into bads.x / bads.x0 changed the result"))
    b.x[...] = bx
    # later use of the optimiser cannot change the result: overwrite every float array the optimiser still holds
    # (attributes and optim_state entries) in place and compare the result with a snapshot taken before
    snap = {k: copy.deepcopy(r[k]) for k in dict.keys(r) if isinstance(r[k], (np.ndarray, float, int, str, type(None)))}
    pools = [vars(b), b.optim_state]
    for pool in pools:
        for key_, arr in list(pool.items()):
            if isinstance(arr, np.ndarray) and arr.dtype.kind == "f" and arr.flags.writeable and arr.size:
                try:
                    arr[...] = -4242.0
                except Exception:  # noqa: BLE001
                    pass
    for k, old_ in snap.items():
        new_ = r[k]
        same_ = (np.array_equal(np.asarray(old_), np.asarray(new_), equal_nan=True) if isinstance(old_, np.ndarray) else (old_ == new_ or (old_ != old_ and new_ != new_)))
        if not same_:
            v.append(viol("result:field-aliases-optimizer-state", f"overwriting the optimiser's arrays in place changed result[{k!r}]", site=k))
            break
    # agreement with problem and final state
    lb, ub = harness.hard_bounds(scn)
    if scn.get("cons") is not None:
        pt = "non-box constraints"
    elif np.all(np.isinf(lb)) and np.all(np.isinf(ub)):
        pt = "unconstrained"
    else:
        pt = "bound constraints"
    if r["problem_type"] != pt:
        v.append(viol("result:problem-type", f"{r['problem_type']!r} expected {pt!r}"))
    if mode == "none":
        tt = "deterministic"
    elif mode == "specified":
        tt = "stochastic (specified noise)"
    else:
        tt = "stochastic"
    if r["target_type"] != tt:
        v.append(viol("result:target-type", f"{r['target_type']!r} expected {tt!r}", site=mode))
    if r["random_seed"] != scn["options"].get("random_seed"):
        v.append(viol("result:random-seed", f"{r['random_seed']!r} expected {scn['options'].get('random_seed')!r}"))
    if r["func_count"] != len(tr.calls):
        v.append(viol("result:func-count", f"{r['func_count']} expected {len(tr.calls)}"))
    last_k = tr.probes[-1]["k"] if tr.probes else None
    base = float(scn["options"].get("poll_mesh_multiplier", 2.0))  # the mesh is a power of options['poll_mesh_multiplier']
    # with search_mesh_expand > 0 a successful search spree advances the mesh *integer* for the next iteration; when the run
    # ends there, the mesh size in force during the last iteration is what the final state holds and the result reports
    expand_ok = bool(scn["options"].get("search_mesh_expand", 0)) and float(r["mesh_size"]) == tr.probes[-1]["mesh"]
    if last_k is not None and not expand_ok and not (float(r["mesh_size"]) == base ** last_k or (base != 2.0 and np.isclose(float(r["mesh_size"]), base ** last_k, rtol=1e-12))):
        v.append(viol("result:mesh-size", f"{r['mesh_size']} expected {base}^{last_k}"))
    x0r = np.asarray(r["x0"], dtype=float).ravel()
    if scn.get("x0") is not None:
        from ..scenario import effective_x0
        exp = np.array([effective_x0(c, x) for c, x in zip(scn["coords"], scn["x0"])])
        if not np.allclose(x0r, exp, rtol=1e-12, atol=1e-12 * np.max(wid)):
            v.append(viol("result:x0", f"x0={x0r.tolist()} expected {exp.tolist()} (given {scn['x0']})"))
    elif not (np.all(x0r >= lb) and np.all(x0r <= ub) and np.all(np.isfinite(x0r))):
        v.append(viol("result:x0", f"random x0={x0r.tolist()} outside the box"))
    nt = nrec >= 5 or (uhl > 0 and nrec >= 3)
    labs.append(f"recorded-iterations>={min(nrec, 5)}")
    return v, evals, nt, labs


def body_run(scn):
    tr = harness.run(scn)
    v, evals, nt, labs = run_oracle(scn, tr)
    labs = harness.run_labels(scn, tr) + labs + ["run"]
    if nt:
        labs.append("run:nontrivial")
    return dict(violations=v, labels=labs, nontrivial=nt, oracle_evals=evals, sample=dict(runlevel.small(scn), ncalls=len(tr.calls)))


# ---------------------------------------------------------------------------------------------
KEYS = ["a", "b", "c"]


@st.composite
def container_histories(draw):
    val = st.one_of(st.integers(-5, 5), st.floats(allow_nan=False, allow_infinity=False, width=16),
                    st.lists(st.integers(0, 9), max_size=3), st.just(None),
                    st.fixed_dictionaries({"k": st.lists(st.integers(0, 3), max_size=2)}))
    op = st.one_of(
        st.tuples(st.just("record"), st.sampled_from(KEYS + ["zz"]), val, st.integers(-2, 12)),
        st.tuples(st.just("record_iteration"), st.lists(st.tuples(st.sampled_from(KEYS + ["zz"]), val), min_size=1, max_size=3), st.integers(-1, 12)),
        st.tuples(st.just("set"), st.sampled_from(KEYS + ["zz"]), st.just(None)),  # reset a key (only None: record() expects None or its own arrays)
        st.tuples(st.just("mutate_last"),),
        st.tuples(st.just("len"),),
        # the other ways a dict takes a key: update(), setdefault(), |=
        st.tuples(st.just("bulk"), st.sampled_from(["update", "setdefault", "ior"]), st.sampled_from(KEYS + ["zz", "zz"])),
    )
    return dict(ops=draw(st.lists(op, min_size=1, max_size=30)))


def run_container(case):
    from pybads.utils.iteration_history import IterationHistory

    h = IterationHistory(list(KEYS))
    model = {k: None for k in KEYS}
    v = []
    st_ = {"last": None, "grew": False, "mutated": False}

    def expect_value_error(fn, what):
        try:
            fn()
        except ValueError:
            return
        except Exception as e:  # noqa: BLE001
            v.append(viol("container:wrong-exception", f"{what}: {type(e).__name__}"))
            return
        v.append(viol("container:invalid-operation-accepted", what, site=what.split(" ")[0]))

    def put(k, val, it):
        cur = model[k] if model[k] is not None else [None]
        if len(cur) <= it:
            cur = cur + [None] * (it + 1 - len(cur))
            st_["grew"] = True
        cur[it] = copy.deepcopy(val)
        model[k] = cur

    def apply(op):
        if op[0] == "record":
            _, k, val, it = op
            if it < 0 or k not in model:
                expect_value_error(lambda: h.record(k, val, it), f"record key={k!r} iteration={it}")
            else:
                obj = copy.deepcopy(val)
                h.record(k, obj, it)
                put(k, val, it)
                st_["last"] = obj
        elif op[0] == "record_iteration":
            _, kvs, it = op
            kv = {k: val for k, val in kvs}
            if it < 0 or any(k not in model for k in kv):
                expect_value_error(lambda: h.record_iteration(dict(kv), it), f"record_iteration keys={sorted(kv)} iteration={it}")
                if it >= 0:
                    # valid keys listed before the offending one may legitimately have been stored
                    for k, val in kv.items():
                        if k not in model:
                            break
                        put(k, val, it)
            else:
                h.record_iteration(copy.deepcopy(kv), it)
                for k, val in kv.items():
                    put(k, val, it)
        elif op[0] == "set":
            _, k, val = op
            if k not in model:
                expect_value_error(lambda: h.__setitem__(k, val), f"setitem key={k!r}")
            else:
                h[k] = None
                model[k] = None
        elif op[0] == "mutate_last":
            lo = st_["last"]
            if isinstance(lo, list):
                lo.append(99)
                st_["mutated"] = True
            elif isinstance(lo, dict):
                lo["k"] = "mutated"
                st_["mutated"] = True
        elif op[0] == "bulk":
            _, how, k = op
            fn = {"update": lambda: h.update({k: None}), "setdefault": lambda: h.setdefault(k, None), "ior": lambda: h.__ior__({k: None})}[how]
            if k not in model:
                expect_value_error(fn, f"{how} key={k!r}")
                dict.pop(h, k, None)
            else:
                fn()
                if how != "setdefault":
                    model[k] = None
        elif op[0] == "len":
            if len(h) != len(KEYS):
                v.append(viol("container:len", f"len={len(h)}"))

    for op in case["ops"]:
        op = tuple(op)
        if op[0] == "record_iteration":
            op = (op[0], [tuple(x) for x in op[1]], op[2])
        try:
            apply(op)
        except Exception as e:  # noqa: BLE001
            info = harness.exc_info(e)
            v.append(viol("container:exception", f"{op}: {info['type']}: {info['msg']}", site=info["site"], exc_type=info["type"]))
        for k in KEYS:
            got, exp = h[k], model[k]
            if exp is None:
                same = got is None
            else:
                same = got is not None and len(got) == len(exp) and all(a == b_ for a, b_ in zip(list(got), exp))
            if not same:
                v.append(viol("container:content", f"after {op}: key {k}: stored {got!r} expected {exp!r}"))
                break
        if v:
            break
    return v, bool(st_["grew"] and st_["mutated"])


def body_container(case):
    v, nt = run_container(case)
    return dict(violations=v, labels=["container"] + (["container:nontrivial"] if nt else []), nontrivial=nt, oracle_evals=len(case["ops"]),
                sample=case["ops"][:6])


ADV_EXCLUDE = ()


def plan(tier):
    return [("runs", 16), ("container", 4), ("advopts", 16), ("stobads", 16)]


def run_part(res, part, tier, seed, shard, nshards):
    if part == "stobads":
        # StoBADS (noisy targets only): the incumbent is updated through other branches, with their own argument order
        return runlevel.sweep(res, dict(PROFILE, noise_modes=("declared", "specified", "auto"), max_iter_choices=(None,), p_cons=0.0,
                                        extra_opts=(("stobads", (True,), 1.0), ("stobads_frame_size_scaling_power", (0, 1, 2), 0.7),
                                                    ("opp_stobads", (False,), 0.3))),
                              64 if tier == "quick" else 1000, seed + 61, shard, nshards, body_run)
    if part == "advopts":
        return runlevel.adv_sweep(res, PROFILE, tier, seed, shard, nshards, body_run, exclude=ADV_EXCLUDE)
    if part == "runs":
        runlevel.sweep(res, PROFILE if tier == "quick" else dict(PROFILE, maxD=5, extra_budget=(20, 250)), N[tier], seed, shard, nshards, body_run)
    else:
        engine.hyp_sweep(res, container_histories(), body_container, runlevel.shard_count(N_HIST[tier], shard, nshards), seed * 1000 + 900 + shard)


def minimise(part, tier, sig, case, seed):
    if part in ("runs", "advopts", "stobads"):
        return runlevel.field_minimise(case, sig, body_run, max_runs=12 if tier == "quick" else 40)
    m = engine.hyp_minimise(container_histories(), lambda c: any(engine.signature(x) == sig for x in run_container(c)[0]), 3000, seed)
    return {"case": m or case, "note": "hypothesis shrink" if m else "unminimised"}


def replay(part, case):
    if part in ("runs", "advopts", "stobads"):
        return runlevel.replay_body(body_run, case)
    return run_container(case)[0]


def floors(tier):
    return {"run:nontrivial": 40, "container:nontrivial": 100}
