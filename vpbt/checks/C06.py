"""C06 — BADS actually minimises smooth unimodal targets within the default budget (population guarantee)."""
from __future__ import annotations

import numpy as np
from hypothesis import strategies as st

from .. import engine, harness, runlevel
from ..engine import viol

LEVEL = "exploration"
TECHNIQUE = "generated panel of problems from the stated family (Hypothesis draws one sub-seed per problem; the problem is a pure function of it), per-run hard clause plus panel statistics against the statement's own thresholds"
RULE = ("Panel of random rotated quadratics exactly as in the statement: D in 1..5, A = Q diag(lam) Q^T with log-uniform eigenvalues in "
        "[1,100] and a Haar-random rotation, minimiser uniform in [-4,4]^D, x0 uniform in the plausible box, default options, "
        "generated random_seed; box geometry: half the panel plausible [-5,5]^D inside hard [-20,20]^D, a quarter with no hard "
        "bounds, a quarter with a ten times wider plausible/hard box (the statement only requires the minimiser inside the "
        "plausible box); 64 problems quick, 320 thorough; "
        "a pure function of VERIF_SEED. Per run (hard): f(result.x) <= f(first evaluated point). Panel: >= 90% of runs within "
        "1e-3 of the minimum; median over the panel of (evaluations until the running best first drops below f*+1e-2)/D <= 40. "
        "Non-trivial = problem with D >= 2 and condition number >= 10; distinct by problem digest.")
ASSUMPTIONS = [
    "the thresholds are the statement's own; a panel in the band [0.90, 0.94] is reported as margin: thin, not as a violation",
    "problems are derived from a NumPy RandomState seeded with a Hypothesis-drawn integer so that the population is uniform as the statement describes (Hypothesis' float strategies over-sample boundary values)",
]

N = {"quick": 64, "thorough": 320}


def problem(subseed, force_variant=None):
    if isinstance(subseed, dict):
        subseed, force_variant = subseed["subseed"], subseed.get("variant")
    rs = np.random.RandomState(subseed)
    D = int(rs.randint(1, 6))
    lam = np.exp(rs.uniform(0, np.log(100.0), size=D))
    M = rs.normal(size=(D, D))
    Q, R = np.linalg.qr(M)
    Q = Q * np.sign(np.diag(R))
    A = Q @ np.diag(lam) @ Q.T
    A = (A + A.T) / 2
    c = rs.uniform(-4, 4, size=D)
    x0 = rs.uniform(-5, 5, size=D)
    seed = int(rs.randint(0, 2**31 - 1))
    # box geometry: the statement fixes the plausible box to contain the minimiser, not the hard bounds. Half of the panel uses
    # the reference geometry (plausible [-5,5]^D in hard [-20,20]^D), the rest no hard bounds at all, hard bounds on every other coordinate only, or a ten times wider box.
    variant = ["standard", "standard", "unbounded", "wide", "mixed"][int(rs.randint(0, 5))]
    variant = force_variant or variant
    if variant == "wide":
        x0 = x0 * 10.0
    if variant == "warm":
        x0 = c.copy()  # warm start at the minimiser: nothing found later can beat the start
    return dict(subseed=int(subseed), D=D, A=A.tolist(), lam=lam.tolist(), c=c.tolist(), x0=x0.tolist(), random_seed=seed, variant=variant)


def boxes(p):
    D = p["D"]
    v = p.get("variant", "standard")
    if v == "unbounded":
        return None, None, np.full(D, -5.0), np.full(D, 5.0)
    if v == "mixed":
        # some coordinates without hard bounds, the others with the reference bounds
        lb, ub = np.full(D, -20.0), np.full(D, 20.0)
        lb[0::2], ub[0::2] = -np.inf, np.inf
        return lb, ub, np.full(D, -5.0), np.full(D, 5.0)
    if v == "wide":
        return np.full(D, -100.0), np.full(D, 100.0), np.full(D, -50.0), np.full(D, 50.0)
    return np.full(D, -20.0), np.full(D, 20.0), np.full(D, -5.0), np.full(D, 5.0)


def run_problem(p):
    import pybads.bads.bads as BB

    A, c = np.array(p["A"]), np.array(p["c"])
    D = p["D"]
    hist = []

    def f(x):
        d = np.asarray(x, dtype=float).ravel() - c
        y = float(d @ A @ d)
        hist.append(y)
        return y

    lb, ub, plb, pub = boxes(p)
    b = BB.BADS(f, np.array(p["x0"]), lb, ub, plb, pub, options={"display": "off", "random_seed": p["random_seed"]})
    r = b.optimize()
    d = np.asarray(r["x"], dtype=float).ravel() - c
    fx = float(d @ A @ d)
    best = np.minimum.accumulate(np.array(hist))
    hit = np.where(best < 1e-2)[0]
    return dict(fx=fx, f_start=hist[0], n_evals=len(hist), evals_to_1e2=(int(hit[0]) + 1) if hit.size else None, fval=float(r["fval"]))


def body(case):
    p = problem(case)
    v = []
    try:
        out = run_problem(p)
    except Exception as e:  # noqa: BLE001
        # a crashed run is C09's finding (C09 runs this same family in its "long" part); here it simply is a run that did not
        # get within 1e-3, so it counts against the panel
        info = harness.exc_info(e)
        return dict(violations=[], labels=["exception:" + info["type"], "variant=" + p["variant"]], nontrivial=False, oracle_evals=1, sample=p,
                    record=dict(subseed=p["subseed"], D=p["D"], cond=max(p["lam"]) / min(p["lam"]), gap=float("inf"), per_D=None, n_evals=0,
                                variant=p["variant"], exception=info["type"]))
    if out["fx"] > out["f_start"]:
        v.append(viol("per-run:worse-than-start", f"f(result.x)={out['fx']!r} > f(first evaluated point)={out['f_start']!r} (D={p['D']})"))
    cond = max(p["lam"]) / min(p["lam"])
    nt = p["D"] >= 2 and cond >= 10
    rec = dict(subseed=p["subseed"], D=p["D"], cond=cond, gap=out["fx"], per_D=None if out["evals_to_1e2"] is None else out["evals_to_1e2"] / p["D"],
               n_evals=out["n_evals"], variant=p["variant"])
    return dict(violations=v, labels=[f"D={p['D']}", "variant=" + p["variant"], "within-1e-3" if out["fx"] < 1e-3 else "not-within-1e-3"] + (["nontrivial"] if nt else []),
                nontrivial=nt, oracle_evals=1, sample=dict(D=p["D"], cond=round(cond, 2), x0=p["x0"], c=p["c"], gap=out["fx"],
                                                           evals_to_1e2=out["evals_to_1e2"]), record=rec)


N_WARM = {"quick": 16, "thorough": 96}


def body_warm(case):
    """Per-run clause only: a warm start at the minimiser (in the standard box) must be returned, not something worse."""
    p = problem(case, force_variant="warm")
    try:
        out = run_problem(p)
    except Exception as e:  # noqa: BLE001
        info = harness.exc_info(e)
        return dict(violations=[], labels=["warm", "exception:" + info["type"]], nontrivial=False, oracle_evals=1, sample=p)
    v = []
    if out["fx"] > out["f_start"]:
        v.append(viol("per-run:worse-than-start", f"warm start: f(result.x)={out['fx']!r} > f(first evaluated point)={out['f_start']!r} (D={p['D']})",
                      site="warm-start"))
    return dict(violations=v, labels=["warm", f"warm:D={p['D']}"], nontrivial=p["D"] >= 2, oracle_evals=1,
                sample=dict(D=p["D"], x0=p["x0"], f_start=out["f_start"], fx=out["fx"]))


def plan(tier):
    return [("panel", 16), ("warm", 8)]


def run_part(res, part, tier, seed, shard, nshards):
    def b(case):
        out = body(case)
        if out.get("record"):
            res.notes.append(out["record"])
        return out

    if part == "warm":
        return engine.hyp_sweep(res, st.integers(0, 2**32 - 1), body_warm, runlevel.shard_count(N_WARM[tier], shard, nshards),
                                seed * 1000 + 400 + shard, case_timeout=1200)
    n = runlevel.shard_count(N[tier], shard, nshards)
    engine.hyp_sweep(res, st.integers(0, 2**32 - 1), b, n, seed * 1000 + shard, case_timeout=1200)


def finalize(agg, tier, seed):
    recs = [r for r in agg["notes"] if isinstance(r, dict) and "gap" in r]
    out = []
    if not recs:
        return out
    frac = sum(1 for r in recs if r["gap"] < 1e-3) / len(recs)
    per = sorted((r["per_D"] if r["per_D"] is not None else float("inf")) for r in recs)
    med = per[len(per) // 2] if len(per) % 2 else 0.5 * (per[len(per) // 2 - 1] + per[len(per) // 2])
    agg["summary"] = dict(panel=len(recs), fraction_within_1e3=frac, median_evals_to_1e2_per_D=med, worst_gap=max(r["gap"] for r in recs),
                          margin="thin" if frac < 0.94 else "comfortable",
                          per_D_histogram={str(d): sum(1 for r in recs if r["D"] == d) for d in range(1, 6)},
                          per_variant={vv: dict(n=sum(1 for r in recs if r.get("variant") == vv),
                                                within_1e3=sum(1 for r in recs if r.get("variant") == vv and r["gap"] < 1e-3))
                                       for vv in ("standard", "unbounded", "wide")},
                          crashed_runs=[(r["subseed"], r.get("exception")) for r in recs if r.get("exception")])
    worst = sorted(recs, key=lambda r: -r["gap"])[:5]
    # any sub-panel of >= 60 problems from the family is a panel in the statement's sense: apply the threshold per dimension
    for d_ in range(1, 6):
        sub = [r for r in recs if r["D"] == d_]
        if len(sub) >= 60:
            fr = sum(1 for r in sub if r["gap"] < 1e-3) / len(sub)
            agg["summary"].setdefault("per_D_fraction_within_1e3", {})[str(d_)] = fr
            if fr < 0.90:
                out.append((viol("panel:success-rate", f"D={d_} sub-panel: only {fr:.3f} of {len(sub)} problems within 1e-3", site=f"D={d_}"),
                            dict(panel_seed=seed, worst=sorted(sub, key=lambda r: -r["gap"])[:5])))
    if len(recs) >= 60 and frac < 0.90:
        out.append((viol("panel:success-rate", f"only {frac:.3f} of {len(recs)} problems within 1e-3 of the minimum (worst gaps: "
                         f"{[(r['subseed'], r['D'], r['gap']) for r in worst]})"), dict(panel_seed=seed, worst=worst)))
    if len(recs) >= 60 and not med <= 40:
        out.append((viol("panel:evaluations-to-1e-2", f"panel median evaluations-to-1e-2 per dimension = {med} > 40"), dict(panel_seed=seed, worst=worst)))
    return out


def minimise(part, tier, sig, case, seed):
    return {"case": case, "note": "problem sub-seed (already a single integer)" if part != "finalize" else "panel statistic: the worst problems are listed"}


def replay(part, case):
    if part == "warm":
        return body_warm(int(case))["violations"]
    if part == "finalize" or isinstance(case, dict):
        outs = []
        for r in case.get("worst", []):
            outs += body(r["subseed"])["violations"]
        return outs
    return body(int(case))["violations"]


def floors(tier):
    return {"nontrivial": 6}
