"""C11 — the variable transform is a faithful, order-preserving bijection onto the unit box."""
from __future__ import annotations

import math

import numpy as np
from hypothesis import strategies as st

from .. import engine, harness, runlevel
from ..engine import viol

LEVEL = "exploration"
RULE = ("Hypothesis-generated bound sets (D 1..6; per-coordinate cells: linear with plausible box strictly inside / touching the "
        "hard bounds, log-eligible positive decades incl. exactly representable ratio-10 cases and 1-ulp near misses, positive "
        "non-decade, fully unbounded; ranges 1e-12..1e12; mixed log/linear; nonlinear scaling on and off) x points inside "
        "(convex combinations, the four bounds themselves) and just outside (bound +- k ulp, +- 1e-9 width, +- 10%) x ordered "
        "pairs. Oracle against plain-float reference formulas: round trip within 1e-9 of the width, monotone both ways, "
        "plausible bounds -> -1/+1, outputs never leave the respective box and are never NaN, log flag iff all four bounds "
        "positive and pub/plb >= 10 and scaling enabled, affine otherwise (midpoint -> 0), geometric mean -> 0 for log "
        "coordinates. Non-trivial = D>=2 with both a log and a linear coordinate, or range ratio >= 1e9, or an outside input.")
ASSUMPTIONS = [
    "bound sets are conditioned |centre|/width <= 1e4 for affine coordinates (beyond that float64 cannot represent the box to 1e-9 of its width)",
    "'just outside' inputs of a log coordinate stay positive (multiplicative offsets)",
    "half-bounded coordinates are not generated (BADS rejects them)",
]

INF = float("inf")


@st.composite
def coord(draw):
    cls = draw(st.sampled_from(["lin", "lin", "touch", "log", "log", "decade", "nearmiss", "posnolog", "unb", "neg", "zerolb"]))
    e = draw(st.integers(-12, 12))
    s = draw(st.sampled_from([1.0, 2.0, 5.0, 3.3])) * 10.0**e
    if cls in ("lin", "touch", "neg"):
        W = s
        # (boxes far from the origin relative to their width: up to 1e6 widths away one ulp of x is still < 1e-9 of the width)
        c = draw(st.sampled_from([0.0, 0.0, 0.5, -3.0, 40.0, -1e3, 1e4, 3e5, -1e6])) * W
        if cls == "neg":
            c = -abs(c) - 2 * W
        lb, ub = c - W / 2, c + W / 2
        if cls == "touch":
            plb, pub = lb, ub
        else:
            a = draw(st.sampled_from([0.001, 0.05, 0.25, 0.45]))
            b = draw(st.sampled_from([0.001, 0.05, 0.25, 0.45]))
            plb, pub = lb + a * W, ub - b * W
    elif cls == "log":
        lb = s
        plb = lb * draw(st.sampled_from([1.0, 1.001, 2.0, 100.0]))
        pub = plb * draw(st.sampled_from([10.0, 11.0, 1e3, 1e6, 1e12]))
        ub = pub * draw(st.sampled_from([1.0, 1.001, 10.0, 1e6]))
    elif cls == "decade":
        plb = draw(st.sampled_from([1.0, 0.5, 2.0, 0.25, 8.0, 1e-3 * 1.0]))
        pub = plb * 10.0
        lb = plb * draw(st.sampled_from([1.0, 0.5]))
        ub = pub * draw(st.sampled_from([1.0, 2.0]))
    elif cls == "nearmiss":
        plb = draw(st.sampled_from([1.0, 0.5, 2.0, 4.0]))
        pub = math.nextafter(plb * 10.0, 0.0)
        lb = plb * draw(st.sampled_from([1.0, 0.5]))
        ub = pub * draw(st.sampled_from([1.0, 2.0]))
    elif cls == "zerolb":
        # everything but the hard lower bound (exactly 0) looks like a log variable: must stay linear
        lb = 0.0
        plb = s
        pub = plb * draw(st.sampled_from([10.0, 1e3, 77.0]))
        ub = pub * draw(st.sampled_from([1.0, 10.0]))
    elif cls == "posnolog":
        lb = s
        plb = lb * draw(st.sampled_from([1.0, 1.5]))
        pub = plb * draw(st.sampled_from([1.5, 5.0, 9.9]))
        ub = pub * draw(st.sampled_from([1.0, 3.0]))
    else:  # unbounded
        W = s
        c = draw(st.sampled_from([0.0, 1.0, -30.0, 1e3])) * W
        lb, ub, plb, pub = -INF, INF, c - W / 2, c + W / 2
    return dict(cls=cls, lb=lb, ub=ub, plb=plb, pub=pub)


PT_KINDS = ["conv", "conv", "conv", "lb", "ub", "plb", "pub", "below_ulp", "above_ulp", "below_rel", "above_rel", "below10", "above10",
            "mid", "gmean", "near_plb", "near_pub", "below_abs", "zero"]


def make_point(c, kind, t, k, is_log):
    lb, ub, plb, pub = c["lb"], c["ub"], c["plb"], c["pub"]
    lo = lb if math.isfinite(lb) else plb - 3 * (pub - plb)
    hi = ub if math.isfinite(ub) else pub + 3 * (pub - plb)
    w = hi - lo
    if kind == "conv":
        if is_log:
            return math.exp(math.log(lo) + t * (math.log(hi) - math.log(lo)))
        return lo + t * w
    if kind == "lb":
        return lo
    if kind == "ub":
        return hi
    if kind == "plb":
        return plb
    if kind == "pub":
        return pub
    if kind in ("near_plb", "near_pub"):
        # a point at a relative distance of 1e-7 (t small) .. 1e-5 of the plausible width from a plausible bound, inside the hard box
        base = plb if kind == "near_plb" else pub
        off = (1e-7 + 1e-5 * t) * (pub - plb) * (1 if k % 2 else -1)
        return min(max(base + off, lo), hi)
    if kind == "mid":
        return 0.5 * (plb + pub)
    if kind == "gmean":
        return math.sqrt(plb * pub) if plb > 0 else 0.5 * (plb + pub)
    if kind == "below_ulp":
        x = lo
        for _ in range(k):
            x = math.nextafter(x, -INF)
        return x
    if kind == "above_ulp":
        x = hi
        for _ in range(k):
            x = math.nextafter(x, INF)
        return x
    if kind == "below_rel":
        return lo * (1 - 1e-9) if is_log else lo - 1e-9 * w
    if kind == "above_rel":
        return hi * (1 + 1e-9) if is_log else hi + 1e-9 * w
    if kind == "below_abs":
        # below the lower bound by an absolute amount: for a log coordinate with a small lower bound this is zero or negative
        return lo - (1e-9 + 1e-3 * t) * min(w, 1e300)
    if kind == "zero":
        return 0.0 if lo > 0 else lo - 1e-6 * w  # exactly 0 handed to a positive (possibly log-scaled) coordinate
    if kind == "below10":
        return lo * 0.9 if is_log else lo - 0.1 * w
    if kind == "above10":
        return hi * 1.1 if is_log else hi + 0.1 * w
    raise ValueError(kind)


@st.composite
def cases(draw):
    D = draw(st.integers(1, 6))
    coords = [draw(coord()) for _ in range(D)]
    scaling = draw(st.sampled_from([True, True, True, False]))
    npts = draw(st.integers(2, 6))
    pts = [[(draw(st.sampled_from(PT_KINDS)), draw(st.sampled_from([0.0, 1.0, 0.5, 0.25, 0.999, 1e-3, 0.37])), draw(st.integers(1, 4)))
            for _ in range(D)] for _ in range(npts)]
    return dict(D=D, coords=coords, scaling=scaling, pts=pts)


def ref_is_log(c, scaling):
    return bool(scaling and c["lb"] > 0 and c["ub"] > 0 and c["plb"] > 0 and c["pub"] > 0 and (c["pub"] / c["plb"] >= 10))


def ref_direct(c, x, lg):
    if lg:
        a, b = math.log(c["plb"]), math.log(c["pub"])
        return (math.log(x) - 0.5 * (a + b)) / (0.5 * (b - a))
    return (x - 0.5 * (c["plb"] + c["pub"])) / (0.5 * (c["pub"] - c["plb"]))


def check_case(case):
    from pybads.variable_transformer import VariableTransformer

    D, coords = case["D"], case["coords"]
    lb = np.array([[c["lb"] for c in coords]])
    ub = np.array([[c["ub"] for c in coords]])
    plb = np.array([[c["plb"] for c in coords]])
    pub = np.array([[c["pub"] for c in coords]])
    flag = np.full((1, D), np.nan) if case["scaling"] else np.zeros((1, D))
    v = []
    labs = []
    try:
        vt = VariableTransformer(D, lb.copy(), ub.copy(), plb.copy(), pub.copy(), flag)
    except Exception as e:  # noqa: BLE001
        info = harness.exc_info(e)
        return [viol("ctor:valid-bounds-rejected", f"{info['type']}: {info['msg']} for coords={coords}", site=info["site"], exc_type=info["type"])], ["ctor-exc"], False, 1
    evals = 0
    islog = [ref_is_log(c, case["scaling"]) for c in coords]
    got = [bool(x) for x in np.asarray(vt.apply_log_t).ravel()]
    evals += 1
    if got != islog:
        v.append(viol("e:log-flag", f"apply_log_t={got} expected {islog} coords={coords} scaling={case['scaling']}"))
        return v, labs, False, evals
    # (c) plausible bounds map to -1 / +1
    tp, tq = np.asarray(vt.plb).ravel(), np.asarray(vt.pub).ravel()
    # "-1 and +1" up to 1e-9, plus the rounding of the centre itself for plausible boxes that are narrow relative to their
    # distance from the origin (one ulp of the centre, in units of the half-width)
    with np.errstate(all="ignore"):
        ptol = 1e-9 + np.array([0.0 if lg else 8 * np.finfo(float).eps * abs(0.5 * (c["plb"] + c["pub"])) / (0.5 * (c["pub"] - c["plb"]))
                                for c, lg in zip(coords, islog)])
    if not (np.all(np.abs(tp + 1.0) <= ptol) and np.all(np.abs(tq - 1.0) <= ptol)):
        v.append(viol("c:plausible-attributes", f"plb attr={tp.tolist()} pub attr={tq.tolist()}"))
    dplb, dpub = vt(plb.copy()).ravel(), vt(pub.copy()).ravel()
    if not (np.all(np.abs(dplb + 1.0) <= ptol) and np.all(np.abs(dpub - 1.0) <= ptol)):
        v.append(viol("c:plausible-map", f"dir(plb)={dplb.tolist()} dir(pub)={dpub.tolist()} coords={coords}"))
    tlb, tub = np.asarray(vt.lb).ravel(), np.asarray(vt.ub).ravel()
    X = np.array([[make_point(coords[i], k, t, n, islog[i]) for i, (k, t, n) in enumerate(p)] for p in case["pts"]], dtype=float)
    outside_any = bool(np.any((X < lb) | (X > ub)))
    U = vt(X.copy())
    Xb = vt.inverse_transf(U.copy())
    evals += X.shape[0] * D
    # (d) outputs stay in the respective box, never NaN
    if np.any(np.isnan(U)) or np.any(U < tlb) or np.any(U > tub):
        j = np.argwhere(np.isnan(U) | (U < tlb) | (U > tub))[0]
        v.append(viol("d:direct-output-outside-internal-box", f"x={X[j[0], j[1]]!r} -> u={U[j[0], j[1]]!r} box=[{tlb[j[1]]}, {tub[j[1]]}] coord={coords[j[1]]}",
                      site="log" if islog[j[1]] else "lin"))
    if np.any(np.isnan(Xb)) or np.any(Xb < lb) or np.any(Xb > ub):
        j = np.argwhere(np.isnan(Xb) | (Xb < lb) | (Xb > ub))[0]
        v.append(viol("d:inverse-output-outside-hard-box", f"u={U[j[0], j[1]]!r} -> x={Xb[j[0], j[1]]!r} coord={coords[j[1]]}",
                      site="log" if islog[j[1]] else "lin"))
    # inverse applied to internal points slightly outside the internal box
    for delta in (1e-9, 0.1):
        Uo = np.vstack([tlb - delta * (1 + np.abs(tlb)), tub + delta * (1 + np.abs(tub))])
        Uo[~np.isfinite(Uo)] = 0.0
        Xo = vt.inverse_transf(Uo.copy())
        if np.any(np.isnan(Xo)) or np.any(Xo < lb) or np.any(Xo > ub):
            v.append(viol("d:inverse-output-outside-hard-box", f"internal input {Uo.tolist()} -> {Xo.tolist()} coords={coords}", site="outside-input"))
    for r in range(X.shape[0]):
        for i in range(D):
            c = coords[i]
            x, u, xb = X[r, i], U[r, i], Xb[r, i]
            inside = c["lb"] <= x <= c["ub"]
            wd = (c["ub"] - c["lb"]) if math.isfinite(c["lb"]) else (max(x, c["pub"]) - min(x, c["plb"]))
            if inside:
                # (a) round trip
                if not abs(xb - x) <= 1e-9 * wd:
                    v.append(viol("a:round-trip", f"x={x!r} -> u={u!r} -> {xb!r}; error {abs(xb - x):.3g} > 1e-9*width={1e-9 * wd:.3g}; coord={c}",
                                  site="log" if islog[i] else "lin"))
                # reference formula
                ref = ref_direct(c, x, islog[i])
                ref = min(max(ref, ref_direct(c, c["lb"], islog[i]) if math.isfinite(c["lb"]) else -INF),
                          ref_direct(c, c["ub"], islog[i]) if math.isfinite(c["ub"]) else INF)
                if not abs(u - ref) <= 1e-9 * max(1.0, abs(ref)):
                    v.append(viol("e:direct-differs-from-reference", f"x={x!r}: u={u!r} reference {ref!r} ({'log' if islog[i] else 'affine'}) coord={c}",
                                  site="log" if islog[i] else "lin"))
    # (b) monotone: sort each coordinate's inputs and compare outputs
    for i in range(D):
        c = coords[i]
        order = np.argsort(X[:, i], kind="stable")
        xs, us, xbs = X[order, i], U[order, i], Xb[order, i]
        wd = (c["ub"] - c["lb"]) if math.isfinite(c["lb"]) else (c["pub"] - c["plb"])
        for a in range(len(xs) - 1):
            if xs[a] < xs[a + 1]:
                evals += 1
                if us[a] > us[a + 1]:
                    v.append(viol("b:direct-not-monotone", f"x {xs[a]!r} < {xs[a + 1]!r} but u {us[a]!r} > {us[a + 1]!r} coord={c}"))
                both_in = c["lb"] <= xs[a] and xs[a + 1] <= c["ub"]
                if both_in and (xs[a + 1] - xs[a]) > 1e-9 * wd and not us[a] < us[a + 1]:
                    if not islog[i] or (xs[a + 1] / xs[a] - 1) > 1e-9:
                        v.append(viol("b:direct-not-strictly-monotone", f"x {xs[a]!r} < {xs[a + 1]!r} (differ > 1e-9 width) but u {us[a]!r} >= {us[a + 1]!r} coord={c}"))
        ou = np.argsort(U[:, i], kind="stable")
        for a in range(len(ou) - 1):
            if U[ou[a], i] < U[ou[a + 1], i] and Xb[ou[a], i] > Xb[ou[a + 1], i]:
                v.append(viol("b:inverse-not-monotone", f"u {U[ou[a], i]!r} < {U[ou[a + 1], i]!r} but x {Xb[ou[a], i]!r} > {Xb[ou[a + 1], i]!r} coord={c}"))
    # the stored original bounds are the ones given (nothing else may end up clamping against them)
    for nm, given in (("orig_lb", lb), ("orig_ub", ub), ("orig_plb", plb), ("orig_pub", pub)):
        if not np.array_equal(np.asarray(getattr(vt, nm), dtype=float).reshape(1, -1), given):
            v.append(viol("d:stored-bounds-differ-from-given", f"{nm}={np.asarray(getattr(vt, nm)).tolist()} given {given.tolist()}", site=nm))
    # grid_units (the set version of the direct map) agrees with the row-wise map, also for integer-typed point sets
    from pybads.search.grid_functions import grid_units
    if X.shape[0] > 1:
        try:
            G = np.asarray(grid_units(X.copy(), vt), dtype=float)
            if G.shape != U.shape or not np.allclose(G, U, rtol=0, atol=1e-12 * (1 + np.abs(U)), equal_nan=True):
                v.append(viol("a:grid-units-differs-from-direct-map", f"grid_units(X) != transform(X) for X={X[:2].tolist()}", site="float"))
            Xi = np.round(np.clip(X, -2**40, 2**40))
            if np.all(np.isfinite(Xi)) and np.all((Xi >= lb) & (Xi <= ub)):
                Gi = np.asarray(grid_units(Xi.astype(np.int64), vt), dtype=float)
                Ui = vt(Xi.copy())
                if Gi.shape != Ui.shape or not np.allclose(Gi, Ui, rtol=0, atol=1e-12 * (1 + np.abs(Ui)), equal_nan=True):
                    v.append(viol("a:grid-units-differs-from-direct-map", f"integer-typed point set {Xi[:2].tolist()}: grid_units gives {Gi[:2].tolist()}, "
                                  f"the direct map {Ui[:2].tolist()}", site="int"))
                    labs.append("grid-units-int")
        except Exception as e:  # noqa: BLE001
            info = harness.exc_info(e)
            v.append(viol("a:grid-units-exception", f"{info['type']}: {info['msg']}", site=info["site"], exc_type=info["type"]))
    # affine / geometric midpoint
    mids = np.array([[math.sqrt(c["plb"] * c["pub"]) if islog[i] else 0.5 * (c["plb"] + c["pub"]) for i, c in enumerate(coords)]])
    um = vt(mids.copy()).ravel()
    if not np.allclose(um, 0.0, atol=1e-9, rtol=0):
        v.append(viol("e:midpoint", f"midpoints {mids.tolist()} map to {um.tolist()} (expected 0) coords={coords}"))
    ratio = max((c["ub"] / c["lb"] if c["lb"] > 0 and math.isfinite(c["ub"]) else 1.0) for c in coords)
    mixed = D >= 2 and any(islog) and not all(islog)
    nt = bool(mixed or ratio >= 1e9 or outside_any)
    labs += [f"D={D}"] + (["mixed-log-linear"] if mixed else []) + (["ratio>=1e9"] if ratio >= 1e9 else []) + (
        ["outside-input"] if outside_any else []) + (["scaling-off"] if not case["scaling"] else [])
    labs += sorted({"cls=" + c["cls"] for c in coords})
    return v, labs, nt, evals


def body(case):
    v, labs, nt, evals = check_case(case)
    if nt:
        labs.append("nontrivial")
    return dict(violations=v, labels=labs, nontrivial=nt, oracle_evals=evals,
                sample=dict(coords=case["coords"], scaling=case["scaling"], pts=case["pts"][:2]))


N = {"quick": 20000, "thorough": 600000}


# ---- through BADS: the option value that enables nonlinear scaling may be any truthy spelling ----
@st.composite
def bads_cases(draw):
    D = draw(st.integers(1, 3))
    coords = [draw(coord()) for _ in range(D)]
    for c in coords:
        if c["cls"] == "touch":
            c.update(plb=c["lb"] + 0.1 * (c["ub"] - c["lb"]), pub=c["ub"] - 0.1 * (c["ub"] - c["lb"]))
    return dict(D=D, coords=coords, spelling=draw(st.sampled_from(["default", "True", "1", "np.True_", "np.int64(1)", "False", "0", "np.False_"])))


def body_bads(case):
    import pybads.bads.bads as BB

    coords, D = case["coords"], case["D"]
    val = {"True": True, "1": 1, "np.True_": np.True_, "np.int64(1)": np.int64(1), "False": False, "0": 0, "np.False_": np.False_}.get(case["spelling"])
    opts = {"display": "off"}
    if case["spelling"] != "default":
        opts["nonlinear_scaling"] = val
    enabled = True if case["spelling"] == "default" else bool(val)
    lb = np.array([c["lb"] for c in coords])
    ub = np.array([c["ub"] for c in coords])
    plb = np.array([c["plb"] for c in coords])
    pub = np.array([c["pub"] for c in coords])
    x0 = np.array([0.5 * (c["plb"] + c["pub"]) for c in coords])
    v = []
    try:
        b = BB.BADS(lambda x: 0.0, x0, lb if np.all(np.isfinite(lb)) else None if np.all(np.isinf(lb)) else lb,
                    ub if np.all(np.isfinite(ub)) else None if np.all(np.isinf(ub)) else ub, plb, pub, options=opts)
    except Exception as e:  # noqa: BLE001
        return dict(violations=[], labels=["bads", "bads:ctor-" + type(e).__name__], nontrivial=False, oracle_evals=0, sample=None)
    got = [bool(x) for x in np.asarray(b.var_transf.apply_log_t).ravel()]
    # the constructor may have moved plausible bounds inward / expanded them: judge on the bounds the transformer received
    vt = b.var_transf
    exp = []
    for i in range(D):
        c = dict(lb=float(np.ravel(vt.orig_lb)[i]), ub=float(np.ravel(vt.orig_ub)[i]), plb=float(np.ravel(vt.orig_plb)[i]), pub=float(np.ravel(vt.orig_pub)[i]))
        exp.append(ref_is_log(c, enabled))
    if got != exp:
        v.append(viol("e:log-flag-through-bads", f"options nonlinear_scaling={case['spelling']}: apply_log_t={got} expected {exp} for coords={coords}",
                      site=case["spelling"]))
    nt = any(exp) or (not enabled and any(ref_is_log(dict(lb=c["lb"], ub=c["ub"], plb=c["plb"], pub=c["pub"]), True) for c in coords))
    return dict(violations=v, labels=["bads", "bads:" + case["spelling"]] + (["bads:log-eligible"] if nt else []), nontrivial=nt, oracle_evals=1, sample=case)


def plan(tier):
    return [("unit", 16), ("bads", 4)] + ([("fuzz", 16)] if tier == "thorough" else [])


def run_part(res, part, tier, seed, shard, nshards):
    if part == "bads":
        return engine.hyp_sweep(res, bads_cases(), body_bads, runlevel.shard_count(600 if tier == "quick" else 20000, shard, nshards), seed * 1000 + 800 + shard)
    if part == "fuzz":
        # coverage-guided campaign (atheris/libFuzzer) on the same Hypothesis test, empty corpus, fixed -runs and -seed
        return engine.run_fuzz_part(res, "C11", "fuzz", 40000, seed, shard)
    engine.hyp_sweep(res, cases(), body, runlevel.shard_count(N[tier], shard, nshards), seed * 1000 + shard)


def minimise(part, tier, sig, case, seed):
    if part == "bads":
        m = engine.hyp_minimise(bads_cases(), lambda c: any(engine.signature(x) == sig for x in body_bads(c)["violations"]), 2000, seed)
        return {"case": m or case, "note": "hypothesis shrink" if m else "unminimised"}
    m = engine.hyp_minimise(cases(), lambda c: any(engine.signature(x) == sig for x in check_case(c)[0]), 5000, seed)
    return {"case": m or case, "note": "hypothesis shrink" if m else "unminimised"}


def replay(part, case):
    if part == "bads":
        return body_bads(case)["violations"]
    return check_case(case)[0]


def floors(tier):
    return {"nontrivial": 2000, "mixed-log-linear": 500}


def fuzz_entry(entry):
    return cases(), body
