"""C05 — noisy targets: the reported estimate is the mean of fresh samples at the returned x."""
from __future__ import annotations

import numpy as np
from hypothesis import strategies as st

from .. import harness, runlevel, scenario
from .. import targets as T
from ..engine import viol

LEVEL = "exploration"
RULE = ("(i) generated noisy runs in the three configurations (auto-detected, declared, specified heteroskedastic noise with an "
        "SD that differs between points), noise magnitudes 1e-3..10, noise_final_samples in {0,1,2,5,10}, budgets from the "
        "design size up; oracle on the tail of the call log vs OptimizeResult: x evaluated before the final samples, the last n "
        "calls are at x, yval_vec = those observations (for n=1 followed by an earlier observation at x), fval = mean, fsd = "
        "standard error, ysd_vec = the SDs the target reported for them (specified noise) or None. (ii) detection boundary: the "
        "first two target values are scripted as (v, v+delta) with delta around tol_noise (derived eps*tol_fun, or set by the user: 0, 1e-8, 0.05, 2) under auto-detection; "
        "target_type must be stochastic iff |delta| > tol_noise. Non-trivial = noisy run with n >= 1 and >= 2 iterations, or a "
        "boundary case with 0 < |delta| <= 10 tol_noise.")
ASSUMPTIONS = [
    "runs that end in their first iteration are not re-sampled by design (labelled single-iteration; only the weaker clauses apply)",
    "the standard error may use either ddof convention",
    "final samples are recognised as the trailing target calls made outside any search/poll step",
]

PROFILE = scenario.profile(maxD=3, extra_budget=(0, 70), cons_x0=("margin",), p_cons=0.15,
                           noise_modes=("auto", "declared", "specified", "specified"), specified_spellings=("both", "alone"),
                           final_samples=(0, 1, 1, 2, 5, 10), max_iter_choices=(None, None, None, 2, 3), tol_mesh_choices=(None,),
                           c_classes=("inside", "inside", "hardbox", "on_bound", "outside", "at_x0"), p_warm=0.2)
N = {"quick": 256, "thorough": 4000}
N_DET = {"quick": 128, "thorough": 2000}


def run_oracle(scn, tr):
    v, labs = [], []
    evals = 0
    b, r = tr.bads, tr.result
    if b is None or r is None:
        return v, 0, False, ["skipped:no-result"]
    mode = scn["target"]["noise"]["mode"]
    uhl = int(b.optim_state["uncertainty_handling_level"])
    if uhl == 0:
        return v, 0, False, ["skipped:deterministic"]
    wid = harness.widths(scn)
    calls = tr.calls
    D = scn["D"]
    init = [s for s in tr.steps if s["kind"] == "init"]
    I = init[0]["call_hi"] if init else len(calls)
    req = scn["options"].get("noise_final_samples", 10)
    mfe = scn["options"].get("max_fun_evals", 500 * D)
    iters = int(r["iterations"])
    ntail = 0
    for c in reversed(calls):
        if c["phase"] == "loop":
            ntail += 1
        else:
            break
    n_exp = min(req, max(mfe - I, 0)) if iters >= 1 else 0
    labs.append("single-iteration" if iters < 1 else "multi-iteration")
    labs.append(f"n_final={min(n_exp, 10)}")
    evals += 1
    if ntail != n_exp:
        v.append(viol("b:number-of-final-samples", f"{ntail} trailing samples, expected {n_exp} (requested {req}, budget {mfe}, design {I}, iterations {iters})",
                      site="multi" if iters >= 1 else "single"))
        return v, evals, False, labs
    rx = np.asarray(r["x"], dtype=float).ravel()
    body_calls = calls[: len(calls) - ntail]
    tail = calls[len(calls) - ntail:]
    xs = np.array([c["x"] for c in body_calls])
    d = np.max(np.abs(xs - rx) / (wid + 1e-300), axis=1)
    at = np.where(d <= 1e-12)[0]
    evals += 1
    if at.size == 0:
        v.append(viol("a:x-not-evaluated-before-final-samples", f"x={rx.tolist()}"))
        return v, evals, False, labs
    for c in tail:
        evals += 1
        if np.max(np.abs(c["x"] - rx) / (wid + 1e-300)) > 1e-12:
            v.append(viol("b:final-sample-not-at-x", f"final sample at {c['x'].tolist()} but x={rx.tolist()}"))
            break
    yv, ysd = r["yval_vec"], r["ysd_vec"]
    if n_exp == 0:
        if yv is not None and iters >= 1:
            v.append(viol("c:yval-vec-without-final-samples", f"yval_vec={yv!r}"))
        return v, evals, False, labs
    evals += 3
    obs = np.array([c["y"] for c in tail])
    earlier = np.array([body_calls[i]["y"] for i in at])
    if yv is None:
        v.append(viol("c:yval-vec-missing", f"{n_exp} final samples taken but yval_vec is None"))
        return v, evals, False, labs
    yvf = np.asarray(yv, dtype=float).ravel()
    if n_exp >= 2:
        if not np.array_equal(yvf, obs):
            v.append(viol("c:yval-vec-not-the-final-observations", f"yval_vec={yvf.tolist()} observations={obs.tolist()}"))
    else:
        he = b.function_logger.he_noise_flag
        ok = yvf.size == 2 and yvf[0] == obs[0] and (bool(np.any(earlier == yvf[1])) or (he and earlier.min() - 1e-9 <= yvf[1] <= earlier.max() + 1e-9))
        if ok and he and len(earlier) >= 2 and not np.any(earlier == yvf[1]):
            # under specified noise repeated observations of x are merged in the log: the supplement is then the log's record of x
            # as it stands (value and SD of the same merge), not a value the record held at some earlier time
            fl_ = b.function_logger
            rows = [j for j in range(fl_.Xn + 1) if np.max(np.abs(fl_.X_orig[j] - rx) / (wid + 1e-300)) <= 1e-12]
            cur = [float(fl_.Y[j, 0]) for j in rows]
            if cur and not any(abs(yvf[1] - cv) <= 1e-9 * max(1.0, abs(cv)) for cv in cur):
                v.append(viol("c:yval-vec-single-sample-stale", f"yval_vec[1]={yvf[1]!r} is neither one of the {len(earlier)} earlier observations at x nor the "
                              f"log's merged record of x {cur} (its SD in ysd_vec is that of the current merge)"))
        if not ok:
            v.append(viol("c:yval-vec-single-sample", f"yval_vec={yvf.tolist()} final observation={obs.tolist()} earlier observations at x={earlier.tolist()[:5]}"))
    m = float(np.mean(yvf))
    if not abs(float(r["fval"]) - m) <= 1e-12 * max(1.0, abs(m)):
        v.append(viol("d:fval-not-mean", f"fval={r['fval']!r} mean(yval_vec)={m!r}"))
    se0 = float(np.std(yvf) / np.sqrt(yvf.size))
    se1 = float(np.std(yvf, ddof=1) / np.sqrt(yvf.size)) if yvf.size > 1 else se0
    fsd = float(np.asarray(r["fsd"]).ravel()[0])
    if not (abs(fsd - se0) <= 1e-12 * max(1.0, se0) or abs(fsd - se1) <= 1e-12 * max(1.0, se1)):
        v.append(viol("d:fsd-not-standard-error", f"fsd={fsd!r} expected {se0!r} (ddof 0) or {se1!r} (ddof 1)"))
    if mode == "specified":
        if ysd is None:
            v.append(viol("e:ysd-vec-missing", "specified noise but ysd_vec is None"))
        else:
            sdv = np.asarray(ysd, dtype=float).ravel()
            rep = np.array([c["sd"] for c in tail])
            if not np.array_equal(sdv[: len(rep)], rep):
                v.append(viol("e:ysd-vec-not-the-reported-sds", f"ysd_vec={sdv.tolist()} SDs reported for the final samples={rep.tolist()}"))
            elif n_exp == 1:
                sds_at_x = [body_calls[i]["sd"] for i in at]
                fl = b.function_logger
                logged = [float(fl.S[j, 0]) for j in range(fl.Xn + 1) if np.max(np.abs(fl.X_orig[j] - rx) / (wid + 1e-300)) <= 1e-12]
                cand = sds_at_x + logged
                if sdv.size != 2 or not any(abs(sdv[1] - s) <= 1e-12 * max(1.0, abs(s)) for s in cand):
                    v.append(viol("e:supplemented-sd-not-from-x", f"ysd_vec={sdv.tolist()}; SDs reported at x={sds_at_x[:4]}, logged at x={logged[:2]}"))
    elif ysd is not None:
        v.append(viol("e:ysd-vec-without-specified-noise", f"ysd_vec={ysd!r} in mode {mode}"))
    tt = "stochastic (specified noise)" if mode == "specified" else "stochastic"
    if r["target_type"] != tt:
        v.append(viol("f:target-type", f"{r['target_type']!r} expected {tt!r}", site=mode))
    return v, evals, True, labs


def body_run(scn):
    tr = harness.run(scn)
    v, evals, nt, labs = run_oracle(scn, tr)
    labs = harness.run_labels(scn, tr) + labs + ["run"]
    if nt:
        labs.append("run:nontrivial")
    return dict(violations=v, labels=labs, nontrivial=nt, oracle_evals=evals, sample=dict(runlevel.small(scn), ncalls=len(tr.calls)))


# ---------------------------------------------------------------------------------------------
DET_PROFILE = scenario.profile(maxD=2, coord_classes=("linear", "tight"), noise_modes=("none",), p_cons=0.0, extra_budget=(0, 12),
                               max_iter_choices=(2,), tol_mesh_choices=(None,), target_kinds=("quad", "l1"), extra_options=False,
                               out_spellings=("float", "np", "arr1"))


@st.composite
def det_cases(draw):
    scn = draw(scenario.scenario(DET_PROFILE))
    scn["options"].pop("uncertainty_handling", None)
    tol_fun = draw(st.sampled_from([1e-3, 1e-3, 1.0, 1e-6]))
    if tol_fun != 1e-3:
        scn["options"]["tol_fun"] = tol_fun
    v0 = draw(st.sampled_from([0.0, 1e-5, 3e-10, -2e-7, 0.5, 50.0, 1e3]))
    mult = draw(st.sampled_from([0.0, 1e-6, 0.4, 0.9, 1.0, 1.1, 2.0, 9.0, 1e3, 1e7, 1e15]))
    sign = draw(st.sampled_from([1.0, -1.0]))
    # the threshold itself is an (advanced) option: absent = eps * tol_fun; 0 = any difference at all means noise
    tol_noise = draw(st.sampled_from([None, None, None, 0.0, 1e-8, 0.05, 2.0]))
    if tol_noise is not None:
        scn["options"]["tol_noise"] = tol_noise
    eff = np.spacing(1.0) * tol_fun if tol_noise is None else tol_noise
    delta = sign * mult * (eff if eff > 0 else draw(st.sampled_from([0.0, 5e-324, 1e-300, 1e-9])))
    return dict(scn=scn, v0=v0, delta=delta, tol_fun=tol_fun, tol_noise=tol_noise)


def body_det(case):
    scn = case["scn"]
    inner = T.make_target(scn["target"])
    v0, delta = case["v0"], case["delta"]

    def script(tr, x, k):
        if k == 1:
            return v0
        if k == 2:
            return v0 + delta
        return float(np.asarray(inner(x)).ravel()[0]) + 10.0 + abs(v0)

    tr = harness.run(scn, script=script)
    v = []
    labs = ["detect"]
    nt = False
    if tr.result is not None and len(tr.calls) >= 2:
        actual = abs(tr.calls[1]["y"] - tr.calls[0]["y"])
        tol_noise = np.spacing(1.0) * case["tol_fun"] if case.get("tol_noise") is None else case["tol_noise"]
        exp = "stochastic" if actual > tol_noise else "deterministic"
        labs.append("detect:tol_noise=" + ("derived" if case.get("tol_noise") is None else repr(case["tol_noise"])))
        if tr.result["target_type"] != exp:
            v.append(viol("f:noise-detection", f"first two values differ by {actual!r}, tol_noise={tol_noise!r}: target_type={tr.result['target_type']!r} expected {exp!r}",
                          site=exp))
        if np.any(np.abs(tr.calls[1]["x"] - tr.calls[0]["x"]) > 0):
            v.append(viol("f:noise-test-not-at-starting-point", f"{tr.calls[0]['x'].tolist()} vs {tr.calls[1]['x'].tolist()}"))
        nt = (0 < actual <= 10 * tol_noise) or (tol_noise == 0 and actual <= 1e-9)
        labs.append("detect:" + exp)
        if actual == 0:
            labs.append("detect:identical")
    elif tr.run_exc is not None:
        labs.append("detect:run-exception")
    if nt:
        labs.append("detect:boundary")
    return dict(violations=v, labels=labs, nontrivial=nt, oracle_evals=1, sample=dict(v0=v0, delta=delta, tol_fun=case["tol_fun"]))


# specified noise, exactly one final sample, warm start (the returned point is then often the very first log record)
N1_PROFILE = dict(PROFILE, noise_modes=("specified",), final_samples=(1,), p_warm=0.6, p_cons=0.0, max_iter_choices=(None,),
                  c_classes=("inside", "at_x0"), extra_budget=(20, 70))
N_N1 = {"quick": 64, "thorough": 1000}


def body_n1(scn):
    scn = dict(scn, options=dict(scn["options"], noise_final_samples=1))
    scn["target"] = dict(scn["target"], noise=dict(scn["target"]["noise"], hetero=max(scn["target"]["noise"].get("hetero", 0.0), 0.5)))
    out = body_run(scn)
    out["labels"] = list(out["labels"]) + ["n1"]
    return out


ADV_EXCLUDE = ()


def plan(tier):
    return [("runs", 16), ("detect", 16), ("n1warm", 8), ("advopts", 16)]


def run_part(res, part, tier, seed, shard, nshards):
    if part == "advopts":
        return runlevel.adv_sweep(res, PROFILE, tier, seed, shard, nshards, body_run, exclude=ADV_EXCLUDE)
    if part == "n1warm":
        runlevel.sweep(res, N1_PROFILE, N_N1[tier], seed + 99, shard, nshards, body_n1)
    elif part == "runs":
        runlevel.sweep(res, PROFILE if tier == "quick" else dict(PROFILE, maxD=5, extra_budget=(0, 250)), N[tier], seed, shard, nshards, body_run)
    else:
        runlevel.sweep(res, None, N_DET[tier], seed + 31, shard, nshards, body_det, strategy=det_cases())


def minimise(part, tier, sig, case, seed):
    mr = 12 if tier == "quick" else 40
    if part in ("runs", "advopts"):
        return runlevel.field_minimise(case, sig, body_run, max_runs=mr)
    if part == "n1warm":
        return runlevel.field_minimise(case, sig, body_n1, max_runs=mr)

    def simp(c):
        for d, s2 in scenario.simplifications(c["scn"]):
            yield d, dict(c, scn=s2)
    return runlevel.field_minimise(case, sig, body_det, max_runs=mr, simplifier=simp)


def replay(part, case):
    return runlevel.replay_body(body_det if part == "detect" else (body_n1 if part == "n1warm" else body_run), case)


def floors(tier):
    return {"run:nontrivial": 60, "detect:boundary": 10}
