"""C10 — target failures and invalid target values surface immediately and unchanged."""
from __future__ import annotations

import numpy as np
from hypothesis import strategies as st

from .. import harness, runlevel, scenario
from ..engine import viol

LEVEL = "fault_enumeration"
TECHNIQUE = "fault injection enumerated over call positions and fault kinds on Hypothesis-generated scenarios (deterministic replay of the trajectory up to the fault)"
RULE = ("For each generated scenario (all noise modes, small budgets) a clean reference run gives the number of target calls n and "
        "the phase of every call (x0, noise test, initial design, search k, poll k, final re-sampling). Faults are then injected "
        "at call positions k x fault kinds: the target raises {InjectedFault, ValueError, KeyError, ZeroDivisionError, "
        "LinAlgError, a two-argument StructuredError, an immutable FrozenError, and message-less InjectedFault()/AssertionError()} or returns {nan, +inf, -inf, complex, 2-vector, 2-list, None} (specified noise also: bare scalar, 3-tuple, "
        "(v,0), (v,-1), (v,nan), (v,inf), (nan,1)). Quick tier: first/last/middle position of every phase; thorough tier: "
        "every k. Oracle: the same exception type (ValueError for invalid values) escapes optimize(), the target is not called "
        "again, func_count = k-1, the calls before k are identical to the reference run and the log holds only finite values "
        "observed before k. Non-trivial = fault at a call index >= 3 in a phase other than the first evaluation; distinct by "
        "(scenario, k, kind).")
ASSUMPTIONS = [
    "runs are deterministic for a fixed random_seed (checked by C07), so the faulted run follows the reference trajectory up to call k",
    "complex values with zero imaginary part, SD=None and [value, SD] lists are ambiguous in the statement and are not injected",
]


class InjectedFault(Exception):
    pass


class StrictInit(Exception):
    """A user exception whose constructor takes exactly one argument (cannot be re-built with extra context)."""

    def __init__(self, step):
        super().__init__(step)
        self.step = step


class StructuredError(Exception):
    """A user exception with two required constructor arguments (like subprocess.CalledProcessError)."""

    def __init__(self, code, detail):
        super().__init__(code, detail)
        self.code, self.detail = code, detail


class FrozenError(Exception):
    """A user exception whose attributes cannot be assigned after construction (frozen dataclass / attrs style)."""

    def __setattr__(self, name, value):
        raise AttributeError(f"cannot assign to field {name!r}")


RAISE = {"FrozenError": FrozenError, "StructuredError(2)": StructuredError, "InjectedFault": InjectedFault, "ValueError": ValueError, "KeyError": KeyError, "ZeroDivisionError": ZeroDivisionError,
         "LinAlgError": np.linalg.LinAlgError, "InjectedFault()": InjectedFault, "AssertionError()": AssertionError, "StrictInit": StrictInit}
BAD_VALUES = {"nan": float("nan"), "+inf": float("inf"), "-inf": float("-inf"), "complex": complex(1.0, 2.0),
              "complex-array1": np.array([1.0 + 2.0j]), "nan-array1": np.array([float("nan")]),
              "vector2": np.array([1.0, 2.0]), "list2": [1.0, 2.0], "none": None}
BAD_PAIRS = {"bare-scalar": 1.5, "tuple3": (1.0, 1.0, 1.0), "sd0": (1.0, 0.0), "sd-neg": (1.0, -1.0), "sd-nan": (1.0, float("nan")),
             "sd-inf": (1.0, float("inf")), "value-nan": (float("nan"), 1.0)}

PROFILE = scenario.profile(maxD=3, extra_budget=(4, 28), cons_x0=("margin",), p_cons=0.15, p_x0_none=0.05,
                           noise_modes=("none", "none", "auto", "declared", "specified", "specified"), specified_spellings=("both", "alone"),
                           final_samples=(1, 2, 3), max_iter_choices=(None, None, 3), tol_mesh_choices=(None,), p_seed_none=0.0,
                           target_kinds=("quad", "l1", "maxn", "rosen"))
N = {"quick": 64, "thorough": 160}


def kinds_for(mode):
    ks = [("raise", k) for k in RAISE] + [("value", k) for k in BAD_VALUES]
    if mode == "specified":
        ks = [("raise", k) for k in RAISE] + [("pair", k) for k in BAD_PAIRS] + [("value", "none")]
    return ks


def make_fault(kind):
    t, name = kind
    if t == "raise":
        if name.endswith("(2)"):
            return ("raise", RAISE[name], "twoargs")
        return ("raise", RAISE[name], "noargs") if name.endswith("()") else ("raise", RAISE[name])
    if t == "value":
        return ("return", BAD_VALUES[name])
    return ("return", BAD_PAIRS[name])


@st.composite
def cases(draw):
    scn = draw(scenario.scenario(PROFILE))
    picks = draw(st.lists(st.tuples(st.sampled_from(["first", "last", "mid"]), st.integers(0, 10**6)), min_size=3, max_size=3))
    return dict(scn=scn, picks=picks, kind_seed=draw(st.integers(0, 10**6)))


def phase_key(c):
    if c["phase"] == "init":
        return "init:x0" if c["i"] == 1 else ("init:design" if c["i"] > 2 else "init:second")
    if c["phase"] == "loop":
        return "final"
    return c["phase"]


def positions(ref, tier, picks):
    """Call indices (1-based) to fault: every k (thorough) or first/last/middle of each phase (quick)."""
    n = len(ref.calls)
    if tier == "thorough":
        return list(range(1, n + 1))
    by = {}
    for c in ref.calls:
        by.setdefault(phase_key(c), []).append(c["i"])
    ks = set()
    for ph, idx in by.items():
        ks.add(idx[0])
        ks.add(idx[-1])
        ks.add(idx[picks[0][1] % len(idx)])
    return sorted(ks)


def check_fault(scn, ref, k, kind, ref_logger_Xn):
    v = []
    fault = make_fault(kind)
    tr = harness.run(scn, fault={k: fault}, want=())
    tag = f"fault {kind} at call {k} ({phase_key(ref.calls[k - 1])}) of {len(ref.calls)}"
    site = f"{kind[0]}:{kind[1]}@{phase_key(ref.calls[k - 1]).split(':')[0]}"
    e = tr.run_exc or tr.ctor_exc
    if e is None:
        v.append(viol("a:fault-swallowed", f"{tag}: optimize() returned normally", site=site))
        return v, tr
    want_type = RAISE[kind[1]].__name__ if kind[0] == "raise" else "ValueError"
    if e["type"] != want_type:
        v.append(viol("a:exception-type-changed", f"{tag}: {e['type']}: {e['msg'][:120]} escaped, expected {want_type}", site=site, exc_type=e["type"]))
    if len(tr.calls) != k:
        v.append(viol("a:target-called-again-after-fault", f"{tag}: {len(tr.calls)} target calls were made", site=site))
    b = tr.bads
    if b is not None:
        fl = b.function_logger
        if fl.func_count != k - 1:
            v.append(viol("c:func-count-counts-invalid-call", f"{tag}: func_count={fl.func_count}, expected {k - 1}", site=site))
        n = fl.Xn + 1
        if n and not np.all(np.isfinite(fl.Y[:n])):
            v.append(viol("d:invalid-value-logged", f"{tag}: log holds a non-finite value", site=site))
        exp_n = ref_logger_Xn[k - 2] + 1 if k >= 2 else 0
        if n != exp_n:
            v.append(viol("d:log-length-differs-from-reference-prefix", f"{tag}: {n} records, reference run had {exp_n} after {k - 1} calls", site=site))
        prior = {c["x"].tobytes() for c in tr.calls[: k - 1]}
        for i in range(n):
            if np.asarray(fl.X_orig[i], dtype=float).tobytes() not in prior:
                v.append(viol("d:log-row-not-from-a-valid-call", f"{tag}: log row {i} at {fl.X_orig[i].tolist()} was not evaluated before the fault", site=site))
                break
    # trajectory prefix identical to the reference (determinism up to the fault)
    for i in range(min(k - 1, len(tr.calls))):
        a, r = tr.calls[i], ref.calls[i]
        if a["x"].tobytes() != r["x"].tobytes() or a["y"] != r["y"]:
            v.append(viol("prefix:trajectory-differs-from-reference", f"{tag}: call {i + 1} differs from the reference run", site="prefix"))
            break
    return v, tr


def body(case, tier="quick"):
    scn = case["scn"]
    ref = harness.run(scn, want=("logger",))
    labs = harness.run_labels(scn, ref)
    if ref.result is None or len(ref.calls) < 2:
        return dict(violations=[], labels=labs + ["skipped:no-reference-run"], nontrivial=False, oracle_evals=0, sample=None, multi=[])
    xn = [e["Xn"] for e in ref.events if e.get("type") == "logger_call" and e["out"] is not None]
    mode = scn["target"]["noise"]["mode"]
    kinds = kinds_for(mode)
    ks = positions(ref, tier, case["picks"])
    out_v = []
    ntriv = []
    evals = 0
    seen = set()
    for j, k in enumerate(ks):
        if tier == "thorough":
            use = kinds
        else:
            r = (case["kind_seed"] + 7 * j) % len(kinds)
            use = [kinds[r], kinds[(r + 5) % len(kinds)]]
        for kind in use:
            v, tr = check_fault(scn, ref, k, kind, xn)
            evals += 1
            ph = phase_key(ref.calls[k - 1])
            labs.append(f"cell:{ph.split(':')[0]}/{kind[0]}:{kind[1]}")
            if k >= 3 and ph != "init:x0":
                ntriv.append((k, kind[1]))
            for x in v:
                s = (x["clause"], x["site"])
                if s not in seen:
                    seen.add(s)
                    out_v.append(x)
    return dict(violations=out_v, labels=sorted(set(labs)), nontrivial=bool(ntriv), oracle_evals=evals,
                sample=dict(runlevel.small(scn), n_calls=len(ref.calls), faulted=[(k, phase_key(ref.calls[k - 1])) for k in ks][:12]),
                ntriv=ntriv)


def plan(tier):
    return [("faults", 16)]


def run_part(res, part, tier, seed, shard, nshards):
    from .. import engine

    def b(case):
        out = body(case, tier)
        # count distinct non-trivial (scenario, k, kind) triples, not scenarios
        for k, kind in out.pop("ntriv", []):
            res.nontrivial.add(engine.digest((engine.digest(case["scn"]), k, kind)))
        out["nontrivial"] = bool(out["nontrivial"])
        return out

    runlevel.sweep(res, None, N[tier], seed, shard, nshards, b, strategy=cases(), case_timeout=1800)


def _simp(c):
    for d, s2 in scenario.simplifications(c["scn"]):
        yield d, dict(c, scn=s2)


def minimise(part, tier, sig, case, seed):
    return runlevel.field_minimise(case, sig, lambda c: body(c, "quick"), max_runs=6, simplifier=_simp)


def replay(part, case):
    return body(case, "thorough" if case.get("all_positions") else "quick")["violations"]


def floors(tier):
    return {}
