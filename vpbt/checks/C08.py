"""C08 — problem definitions are validated exactly: invalid raise ValueError, valid are accepted and normalised."""
from __future__ import annotations

import itertools
import math

import numpy as np
from hypothesis import strategies as st

from .. import engine, harness, runlevel
from ..engine import viol

LEVEL = "exploration"
RULE = ("(i) D=1 matrix: every combination of (x0, lb, ub, plb, pub) from a 12-value alphabet {absent, -inf, +inf, NaN, 1, 2, 3, 4, "
        "2+1ulp, 2(1+1e-12), 1.0005, 1.001} (exhaustive in the thorough tier = 248 832 constructions; a pseudo-random "
        "4 000-cell subset in the quick tier); (ii) Hypothesis for D=2,3 composing per-coordinate cells (bounded/unbounded mixes, dimension "
        "mismatches, margins, near-equal pairs); (iii) every valid definition in all equivalent spellings ((D,), (1,D), list, "
        "tuple, integer dtype when integral, Python scalars for D=1). Oracle: independent reference validator written from the "
        "statement (INVALID(reason) / VALID / LENIENT for pairs closer than 1e-9 relative); INVALID <=> ValueError, never "
        "another exception type; target never called; valid => lb<=plb<pub<=ub, x0 finite and strictly inside finite hard "
        "bounds (inside the plausible box when drawn); all spellings give identical normalised attributes and (sub-sample) an "
        "identical 25-evaluation run. Non-trivial = D>=2 definition with >= 2 different per-coordinate cells, or an invalid "
        "definition whose reason is not the dimension check; D=1: any definition with >= 1 special value.")
ASSUMPTIONS = [
    "cells the statement leaves open: NaN hard bound = not ordered (invalid); non-finite x0 that is not outside a finite hard bound = treated as omitted (valid); pairs closer than 1e-9 relative (hard or plausible) = either ValueError or acceptance with all post-conditions",
    "a scalar bound replicated for D>1 (documented but not listed in the statement) is not generated",
]

INF = float("inf")
NAN = float("nan")
ULP2 = math.nextafter(2.0, 3.0)
ALPHA = [None, -INF, INF, NAN, 1.0, 2.0, 3.0, 4.0, ULP2, 2.0 * (1 + 1e-12), 1.0005, 1.001]


def _near(a, b):
    return a != b and math.isfinite(a) and math.isfinite(b) and abs(a - b) <= 1e-9 * max(abs(a), abs(b), 1e-300)


def ref_validate(x0, lb, ub, plb, pub):
    """Reference validator (from the statement). Each argument is None or a list of floats.
    Returns (verdict, reason) with verdict in {"INVALID", "VALID", "LENIENT"}."""
    if x0 is None and ((plb is None and lb is None) or (pub is None and ub is None)):
        return "INVALID", "unknown-dims"
    dims = {len(v) for v in (x0, lb, ub, plb, pub) if v is not None}
    if len(dims) != 1:
        return "INVALID", "dims"
    D = dims.pop()
    lb_ = lb if lb is not None else [-INF] * D
    ub_ = ub if ub is not None else [INF] * D
    plb_ = plb if plb is not None else lb_
    pub_ = pub if pub is not None else ub_
    lenient = False
    reasons = []
    for i in range(D):
        l, u, pl, pu = lb_[i], ub_[i], plb_[i], pub_[i]
        if math.isnan(l) or math.isnan(u):
            reasons.append("nan-hard-bound")
            continue
        if not (math.isfinite(pl) and math.isfinite(pu)):
            reasons.append("plausible-nonfinite")
            continue
        if pl == pu:
            reasons.append("plausible-equal")
            continue
        if not (l <= pl < pu <= u):
            reasons.append("order")
            continue
        if x0 is not None and not math.isnan(x0[i]) and (x0[i] < l or x0[i] > u):
            reasons.append("x0-outside")
            continue
        if l == u:
            reasons.append("hard-equal")
            continue
        if math.isfinite(l) != math.isfinite(u):
            reasons.append("half-bounded")
            continue
        if _near(l, u) or _near(pl, pu):
            lenient = True
    if reasons:
        return "INVALID", reasons[0]
    return ("LENIENT", "near-pair") if lenient else ("VALID", "")


def spell(vec, how):
    if vec is None:
        return None
    if how == "a1":
        return np.array(vec, dtype=float)
    if how == "a2":
        return np.array(vec, dtype=float).reshape(1, -1)
    if how == "list":
        return [float(v) for v in vec]
    if how == "tuple":
        return tuple(float(v) for v in vec)
    if how == "scalar":
        return float(vec[0])
    if how == "int":
        return np.array([int(v) for v in vec])
    if how == "intlist":
        return [int(v) for v in vec]
    raise ValueError(how)


def construct(defn, how="a1", options=None):
    import pybads.bads.bads as BB

    calls = {"n": 0}

    def target(x):
        calls["n"] += 1
        return float(np.sum(np.asarray(x, dtype=float) ** 2))

    args = [spell(defn[k], how) for k in ("x0", "lb", "ub", "plb", "pub")]
    before = [None if a is None else (a.copy() if isinstance(a, np.ndarray) else a) for a in args]
    b = err = None
    try:
        b = BB.BADS(target, *args, options=dict(options or {"display": "off", "random_seed": 11}))
    except Exception as e:  # noqa: BLE001
        err = harness.exc_info(e)
    return b, err, calls["n"], target


def postconditions(defn, b):
    """Post-conditions of an accepted definition (clause c)."""
    out = []
    vt = b.var_transf
    ol, ou = np.asarray(vt.orig_lb, dtype=float).ravel(), np.asarray(vt.orig_ub, dtype=float).ravel()
    opl, opu = np.asarray(vt.orig_plb, dtype=float).ravel(), np.asarray(vt.orig_pub, dtype=float).ravel()
    x0 = np.asarray(b.x0, dtype=float).ravel()
    if not (np.all(ol <= opl) and np.all(opl < opu) and np.all(opu <= ou)):
        out.append(("c:normalised-bounds-not-ordered", f"lb={ol.tolist()} plb={opl.tolist()} pub={opu.tolist()} ub={ou.tolist()}"))
    tl, tu = np.asarray(vt.lb, dtype=float).ravel(), np.asarray(vt.ub, dtype=float).ravel()
    tpl, tpu = np.asarray(vt.plb, dtype=float).ravel(), np.asarray(vt.pub, dtype=float).ravel()
    if np.any(np.isnan(np.concatenate([tl, tu, tpl, tpu]))) or not (np.all(tl <= tpl) and np.all(tpl < tpu) and np.all(tpu <= tu)):
        out.append(("c:normalised-internal-bounds-not-ordered", f"internal lb={tl.tolist()} plb={tpl.tolist()} pub={tpu.tolist()} ub={tu.tolist()}"))
    if not np.all(np.isfinite(x0)):
        out.append(("c:x0-not-finite", f"x0={x0.tolist()}"))
    else:
        fin = np.isfinite(ol)
        if np.any(x0[fin] <= ol[fin]) or np.any(x0[fin] >= ou[fin]):
            out.append(("c:x0-not-strictly-inside", f"x0={x0.tolist()} lb={ol.tolist()} ub={ou.tolist()}"))
        if defn["x0"] is None and (np.any(x0 < opl) or np.any(x0 > opu)):
            out.append(("c:random-x0-outside-plausible-box", f"x0={x0.tolist()} plb={opl.tolist()} pub={opu.tolist()}"))
    D = x0.size
    lb_in = defn["lb"] if defn["lb"] is not None else [-INF] * D
    ub_in = defn["ub"] if defn["ub"] is not None else [INF] * D
    if not (np.array_equal(ol, np.array(lb_in, dtype=float)) and np.array_equal(ou, np.array(ub_in, dtype=float))):
        out.append(("c:hard-bounds-changed", f"given lb={lb_in} ub={ub_in}; normalised lb={ol.tolist()} ub={ou.tolist()}"))
    if defn["plb"] is None and defn["lb"] is not None:
        w = np.array(ub_in, dtype=float) - np.array(lb_in, dtype=float)
        ok = np.all(opl >= ol) and np.all(opl <= ol + 0.011 * w)
        if defn["x0"] is not None and np.all(np.isfinite(defn["x0"])):
            ok = ok or np.all(opl <= np.minimum(ol + 0.011 * w, np.array(defn["x0"], dtype=float)))
        if not ok:
            out.append(("c:omitted-plausible-not-defaulted-to-hard", f"plb={opl.tolist()} lb={ol.tolist()}"))
    return out


def attrs(b):
    vt = b.var_transf
    keys = []
    for a in (b.x0, vt.orig_lb, vt.orig_ub, vt.orig_plb, vt.orig_pub, vt.lb, vt.ub, vt.plb, vt.pub, b.lower_bounds, b.upper_bounds,
              b.plausible_lower_bounds, b.plausible_upper_bounds, vt.apply_log_t, b.u):
        keys.append(np.asarray(a, dtype=float).ravel().tobytes())
    return keys


def spellings_of(defn):
    D = max(len(v) for v in defn.values() if v is not None)
    hows = ["a1", "a2", "list", "tuple"]
    if D == 1:
        hows.append("scalar")
    if all(v is None or all(math.isfinite(t) and float(t).is_integer() for t in v) for v in defn.values()):
        hows += ["int", "intlist"]
    return hows


def short_run(defn, how):
    b, err, n, target = construct(defn, how, options={"display": "off", "random_seed": 5, "max_fun_evals": 25})
    if b is None:
        return None
    xs = []
    orig = b.function_logger.fun

    def rec(x):
        xs.append(np.array(x, dtype=float).copy())
        return orig(x)

    b.function_logger.fun = rec
    try:
        r = b.optimize()
        return [x.tobytes() for x in xs], (np.asarray(r["x"], dtype=float).tobytes(), float(r["fval"]), int(r["func_count"]))
    except Exception as e:  # noqa: BLE001
        return "exc:" + type(e).__name__


def check_definition(defn, with_spellings=True, with_run=False):
    """Return (violations, labels, verdict)."""
    verdict, reason = ref_validate(defn["x0"], defn["lb"], defn["ub"], defn["plb"], defn["pub"])
    v = []
    labs = [f"ref:{verdict}" + (f":{reason}" if reason else "")]
    b, err, ncalls, _ = construct(defn, "a1")
    short = {k: defn[k] for k in ("x0", "lb", "ub", "plb", "pub")}
    if ncalls:
        v.append(viol("b:target-called-by-constructor", f"{ncalls} call(s) for {short}"))
    if err is not None and err["type"] != "ValueError":
        v.append(viol("a:wrong-exception-type", f"{err['type']}: {err['msg']} for {short} (reference: {verdict} {reason})",
                      site=err["site"], exc_type=err["type"]))
        return v, labs, verdict
    if verdict == "INVALID":
        if err is None:
            v.append(viol("a:invalid-definition-accepted", f"{short} accepted; reference reason: {reason}", site=reason))
        return v, labs, verdict
    if err is not None:
        if verdict == "VALID":
            msg = err["msg"].split(":")[1] if err["msg"].startswith("bads:") else err["msg"][:40]
            v.append(viol("a:valid-definition-rejected", f"{short} rejected: {err['msg'][:160]}", site=f"{err['site']}:{msg.strip()[:30]}"))
        else:
            labs.append("lenient:rejected")
        return v, labs, verdict
    for clause, detail in postconditions(defn, b):
        v.append(viol(clause, f"{short}: {detail}", site=verdict))
    if with_spellings and not v:
        base = attrs(b)
        for how in spellings_of(defn)[1:]:
            b2, err2, n2, _ = construct(defn, how)
            if err2 is not None:
                v.append(viol("d:spelling-rejected", f"{short} accepted as (D,) arrays but spelling {how!r} raised {err2['type']}: {err2['msg'][:120]}",
                              site=how, exc_type=err2["type"]))
                continue
            if attrs(b2) != base:
                names = ["x0", "orig_lb", "orig_ub", "orig_plb", "orig_pub", "lb", "ub", "plb", "pub", "lower_bounds", "upper_bounds", "plausible_lower_bounds",
                         "plausible_upper_bounds", "apply_log_t", "u"]
                diff = [nm for nm, a, c in zip(names, attrs(b2), base) if a != c]
                v.append(viol("d:spelling-changes-normalised-problem", f"{short}: spelling {how!r} differs from (D,) arrays in {diff}", site=how))
            elif with_run:
                r1, r2 = short_run(defn, "a1"), short_run(defn, how)
                if r1 != r2:
                    v.append(viol("d:spelling-changes-run", f"{short}: 25-evaluation run differs between (D,) arrays and {how!r}", site=how))
        labs.append("spellings-compared")
    return v, labs, verdict


# ---------------------------------------------------------------------------------------------
def d1_defn(idx):
    vals = [ALPHA[i] for i in idx]
    return {k: (None if val is None else [val]) for k, val in zip(("x0", "lb", "ub", "plb", "pub"), vals)}


def run_matrix(res, tier, seed, shard, nshards):
    n = len(ALPHA)
    total = n**5
    if tier == "thorough":
        it = (i for i in range(total) if i % nshards == shard)
        res.exhaustive = True
    else:
        rng = np.random.RandomState(seed * 1000 + shard)  # stratified pseudo-random subset, a pure function of the seed
        it = rng.choice(total, size=4000 // nshards, replace=False)
    for code in it:
        code = int(code)
        idx = [(code // n**k) % n for k in range(5)]
        defn = d1_defn(idx)
        v, labs, verdict = check_definition(defn, with_spellings=(verdict_quick(defn)))
        special = sum(1 for i in idx if i in (0, 1, 2, 3, 8, 9, 10, 11))
        res.add_case(defn, v, labels=["d1"] + ["d1:" + l for l in labs], nontrivial=special >= 1, oracle_evals=1, sample=defn, max_samples=2)


def verdict_quick(defn):
    return ref_validate(defn["x0"], defn["lb"], defn["ub"], defn["plb"], defn["pub"])[0] != "INVALID"


CELLS = ["lin", "lin", "tight", "log", "unb", "margin", "x0lb", "x0out", "x0outpl", "eq_hard", "near_hard", "half", "pl_eq", "pl_inf",
         "order1", "order2", "nanhard", "x0nan", "x0inf", "near_pl", "int"]


@st.composite
def coord_cell(draw, cell):
    s = draw(st.sampled_from([1.0, 10.0, 1e-3, 250.0]))
    c = draw(st.sampled_from([0.0, 0.0, 3.0, -7.0])) * s
    lb, ub = c - 2 * s, c + 2 * s
    plb, pub = c - s, c + s
    x0 = c + 0.25 * s
    if cell == "tight":
        plb, pub = lb, ub
    elif cell == "log":
        lb, plb, pub, ub = s, 2 * s, 50 * s, 100 * s
        x0 = 10 * s
    elif cell == "unb":
        lb, ub = -INF, INF
    elif cell == "margin":
        lb, ub = 0.0, 1000.0 * s
        plb, pub = 0.1 * s, 0.9 * s
        x0 = 0.5 * s
    elif cell == "x0lb":
        x0 = lb
    elif cell == "x0out":
        x0 = ub + s
    elif cell == "x0outpl":
        x0 = lb + 0.5 * s
    elif cell == "eq_hard":
        ub = lb
    elif cell == "near_hard":
        lb, ub = 2.0 * s, math.nextafter(2.0 * s, INF)
        plb, pub, x0 = lb, ub, lb
    elif cell == "half":
        if draw(st.booleans()):
            lb = -INF
        else:
            ub = INF
    elif cell == "pl_eq":
        pub = plb
    elif cell == "pl_inf":
        pub = INF if draw(st.booleans()) else NAN
    elif cell == "order1":
        plb, pub = pub, plb
    elif cell == "order2":
        plb = lb - s
    elif cell == "nanhard":
        lb = NAN
    elif cell == "x0nan":
        x0 = NAN
    elif cell == "x0inf":
        x0 = INF if draw(st.booleans()) else -INF
    elif cell == "near_pl":
        pub = math.nextafter(plb, INF)
        x0 = plb
    elif cell == "int":
        lb, ub, plb, pub, x0 = -10.0, 10.0, -5.0, 5.0, 1.0
        if draw(st.booleans()):
            lb, ub, plb, pub, x0 = 1.0, 200.0, 2.0, 100.0, 10.0
    return dict(cell=cell, x0=x0, lb=lb, ub=ub, plb=plb, pub=pub)


@st.composite
def multi_defs(draw):
    D = draw(st.sampled_from([2, 3]))
    cells = [draw(st.sampled_from(CELLS)) for _ in range(D)]
    cs = [draw(coord_cell(c)) for c in cells]
    defn = {k: [c[k] for c in cs] for k in ("x0", "lb", "ub", "plb", "pub")}
    if "x0nan" in cells:
        # the statement only knows a starting point that is given or omitted as a whole: NaN marks the whole x0 as omitted
        defn["x0"] = [NAN] * D
    present = draw(st.sampled_from(["all", "all", "all", "nox0", "noplaus", "nohard", "nox0noplaus", "onlyx0"]))
    if present in ("nox0", "nox0noplaus"):
        defn["x0"] = None
    if present in ("noplaus", "nox0noplaus"):
        defn["plb"] = defn["pub"] = None
    if present == "nohard":
        defn["lb"] = defn["ub"] = None
    if present == "onlyx0":
        defn["lb"] = defn["ub"] = defn["plb"] = defn["pub"] = None
    mism = draw(st.sampled_from([None] * 9 + ["x0", "lb", "ub", "plb", "pub"]))
    if mism and defn[mism] is not None:
        defn[mism] = defn[mism] + [defn[mism][0]] if draw(st.booleans()) else defn[mism][:-1]
        if not defn[mism]:
            defn[mism] = [0.0] * (D + 1)
    return dict(defn=defn, cells=cells, present=present, mism=mism, run=draw(st.sampled_from([False] * 9 + [True])))


def body_multi(case):
    v, labs, verdict = check_definition(case["defn"], with_spellings=True, with_run=case["run"])
    reason = [l for l in labs if l.startswith("ref:")][0]
    nt = len(set(case["cells"])) >= 2 or (verdict == "INVALID" and not reason.endswith(":dims"))
    return dict(violations=v, labels=["multi"] + ["multi:" + l for l in labs] + (["multi:nontrivial"] if nt else []) + sorted({"cell:" + c for c in case["cells"]}),
                nontrivial=nt, oracle_evals=1, sample=case)


N_MULTI = {"quick": 2000, "thorough": 60000}
N_RAND = {"quick": 1600, "thorough": 40000}


@st.composite
def randstart_defs(draw):
    """x0 omitted, a plausible box that touches a hard bound and is narrow compared with the hard box (a rate in [0, 1000] that is
    plausibly in [0, 1]): the random start is drawn next to that bound and then snapped to the search grid."""
    D = draw(st.integers(1, 3))
    s = draw(st.sampled_from([1.0, 1e-3, 50.0]))
    side = [draw(st.sampled_from(["lb", "lb", "ub"])) for _ in range(D)]
    lb, ub, plb, pub = [], [], [], []
    for sd in side:
        w = draw(st.sampled_from([1.0, 0.5, 3.0])) * s
        if sd == "lb":
            lb.append(0.0); ub.append(1000.0 * s); plb.append(0.0); pub.append(w)
        else:
            lb.append(-1000.0 * s); ub.append(0.0); plb.append(-w); pub.append(0.0)
    return dict(defn=dict(x0=None, lb=lb, ub=ub, plb=plb, pub=pub), seed=draw(st.integers(0, 20000)),
                grid=draw(st.sampled_from([0, 0, 10, 4])))


def body_randstart(case):
    b, err, ncalls, _ = construct(case["defn"], options={"display": "off", "random_seed": case["seed"], "search_grid_number": case["grid"]})
    v = []
    if err is not None:
        v.append(viol("a:valid-definition-rejected", f"{err['type']}: {err['msg'][:160]}", site=err["site"]))
    else:
        for clause, detail in postconditions(case["defn"], b):
            v.append(viol(clause, detail))
        # the point the run really starts from: the start after it has been put on the search grid
        vt = b.var_transf
        u = np.asarray(b.optim_state["u"], dtype=float).reshape(1, -1)
        xs = np.asarray(vt.inverse_transf(u), dtype=float).ravel()
        lo, hi = np.array(case["defn"]["lb"]), np.array(case["defn"]["ub"])
        if np.any(xs <= lo) or np.any(xs >= hi):
            v.append(viol("c:x0-not-strictly-inside", f"the gridized start {xs.tolist()} (u={u.ravel().tolist()}) lies on a hard bound lb={lo.tolist()} ub={hi.tolist()} "
                          f"(random_seed={case['seed']}, search_grid_number={case['grid']})", site="gridized-random-start"))
    return dict(violations=v, labels=["randstart", f"randstart:grid={case['grid']}"], nontrivial=True, oracle_evals=1, sample=case)


def plan(tier):
    return [("matrix", 16), ("multi", 16), ("randstart", 8)] + ([("fuzz", 16)] if tier == "thorough" else [])


def run_part(res, part, tier, seed, shard, nshards):
    if part == "fuzz":
        # coverage-guided campaign (atheris/libFuzzer) on the same Hypothesis test, empty corpus, fixed -runs and -seed
        return engine.run_fuzz_part(res, "C08", "fuzz", 4000, seed, shard)
    if part == "randstart":
        return engine.hyp_sweep(res, randstart_defs(), body_randstart, runlevel.shard_count(N_RAND[tier], shard, nshards), seed * 1000 + 500 + shard)
    if part == "matrix":
        run_matrix(res, tier, seed, shard, nshards)
    else:
        engine.hyp_sweep(res, multi_defs(), body_multi, runlevel.shard_count(N_MULTI[tier], shard, nshards), seed * 1000 + shard)


def minimise(part, tier, sig, case, seed):
    if part == "randstart":
        m = engine.hyp_minimise(randstart_defs(), lambda c: any(engine.signature(x) == sig for x in body_randstart(c)["violations"]), 3000, seed, budget_s=120)
        return {"case": m or case, "note": "hypothesis shrink" if m else "unminimised"}
    if part in ("multi", "fuzz"):
        m = engine.hyp_minimise(multi_defs(), lambda c: any(engine.signature(x) == sig for x in body_multi(c)["violations"]), 3000, seed, budget_s=120)
        return {"case": m or case, "note": "hypothesis shrink" if m else "unminimised"}
    return {"case": case, "note": "matrix cell (one definition)"}


def replay(part, case):
    if part == "randstart":
        return body_randstart(case)["violations"]
    if part in ("multi", "fuzz"):
        return body_multi(case)["violations"]
    return check_definition(case, with_spellings=True)[0]


def floors(tier):
    return {"multi:nontrivial": 500}


def fuzz_entry(entry):
    return multi_defs(), body_multi
