"""C15 — the GP surrogate is always conditioned on real, nearby observations."""
from __future__ import annotations

import math

import numpy as np
from hypothesis import strategies as st

from .. import engine, harness, runlevel, scenario
from ..engine import viol

LEVEL = "exploration"
RULE = ("Every GP (re)fit / posterior update / acquisition call of generated runs (all noise modes; specified noise with SD != 1 "
        "and varying between points; optimum on a bound so that repeated points occur; D<=4), seen through the "
        "init_and_train_gp / local_gp_fitting / add_and_update_gp / acq_fcn_lcb seams with the log snapshotted at the same "
        "instant. Oracle: every training pair equals a logged (X, Y) pair exactly, supplied noise enters as the logged SD "
        "squared; local fits select the |set| logged points nearest to the passed centre in the length-scaled metric captured "
        "before the call, in non-decreasing distance, with min(N, n_train_min) <= |set| <= max(n_train_max, n_train_min); an "
        "incremental add appends exactly the just-evaluated (u, y, sd^2); LCB = mean - sqrt(0.4 ln(D t^2 pi^2 / 0.6)) * sd with "
        "t = evaluations so far + 1 and (mean, variance) from an independent gp.predict. Plus unit-level Hypothesis on "
        "get_grid_search_neighbors with synthetic logs (scalar / per-coordinate length scales, distance ties, fewer points than "
        "the minimum). Non-trivial = fit event in which a real selection happened (N > |set|) or a specified-noise event.")
ASSUMPTIONS = [
    "the GP length scales / effective radius captured before each call are trusted as the metric the statement refers to",
    "gp.predict of gpyreg is trusted as the posterior (the acquisition formula applied to it is checked)",
]

PROFILE = scenario.profile(maxD=4, extra_budget=(30, 110), cons_x0=("margin",), p_cons=0.15,
                           noise_modes=("none", "none", "auto", "declared", "specified", "specified"), specified_spellings=("both", "alone"),
                           c_classes=("inside", "on_bound", "on_bound", "outside", "hardbox"), max_iter_choices=(None,), tol_mesh_choices=(None,),
                           extra_opts=(("search_acq_fcn", ({"__callable__": "lcb_schedule", "k": 0.5}, {"__callable__": "lcb_schedule", "k": 2.0},
                                                          {"__callable__": "lcb_const", "v": 1.5}), 0.2),))
N = {"quick": 128, "thorough": 2500}
N_UNIT = {"quick": 3000, "thorough": 100000}


def rows_in_log(gp, log, he, tag):
    """(a) each (X, y[, s2]) row of the GP is a logged record."""
    out = []
    LX, LY, LS = log["X"], log["Y"], log["S"]
    index = {}
    for j in range(len(LX)):
        index.setdefault((LX[j] + 0.0).tobytes(), []).append(j)  # (+ 0.0: -0.0 and 0.0 are the same point)
    for i in range(len(gp["X"])):
        js = index.get((np.asarray(gp["X"][i], dtype=float) + 0.0).tobytes())
        if not js:
            out.append(viol("a:training-input-not-logged", f"{tag}: GP row {i} X={gp['X'][i].tolist()} is not a logged point"))
            break
        yi = float(np.asarray(gp["y"][i]).ravel()[0])
        jm = [j for j in js if float(LY[j, 0]) == yi]
        if not jm:
            out.append(viol("a:training-value-differs-from-log", f"{tag}: GP row {i} at {gp['X'][i].tolist()} y={yi!r} but logged value(s) "
                            f"{[float(LY[j, 0]) for j in js]}", site=tag.split(" ")[0]))
            break
        if he and gp["s2"] is not None and LS is not None:
            s2 = float(np.asarray(gp["s2"][i]).ravel()[0])
            if not any(abs(s2 - float(LS[j, 0]) ** 2) <= 1e-12 * max(1e-300, float(LS[j, 0]) ** 2) for j in jm):
                out.append(viol("a:noise-not-logged-sd-squared", f"{tag}: GP row {i}: s2={s2!r} but logged SD={[float(LS[j, 0]) for j in jm]} "
                                f"(SD^2={[float(LS[j, 0]) ** 2 for j in jm]})", site=tag.split(" ")[0]))
                break
    return out


def selection_oracle(e, tag):
    out = []
    log, gp = e["log"], e["gp"]
    N_ = len(log["X"])
    n = len(gp["X"])
    ls = np.asarray(e["metric"]["len_scale"], dtype=float)
    d_all = np.sum(((log["X"] - e["centre"]) / ls) ** 2, axis=1)
    d_sel = np.sum(((gp["X"] - e["centre"]) / ls) ** 2, axis=1)
    o = e["opts"]
    lo = min(N_, o["n_train_min"])
    hi = min(N_, max(o["n_train_max"], o["n_train_min"]))
    if not (lo <= n <= hi):
        out.append(viol("b:training-set-size", f"{tag}: |set|={n} not in [{lo}, {hi}] (N={N_}, n_train_min={o['n_train_min']}, n_train_max={o['n_train_max']})"))
        return out
    tol = 1e-12 * (1 + np.max(d_all))
    if np.any(np.diff(d_sel) < -tol):
        out.append(viol("b:not-ordered-by-distance", f"{tag}: selected distances {d_sel[:8].tolist()}"))
    best = np.sort(d_all)[:n]
    if np.any(np.abs(np.sort(d_sel) - best) > tol):
        out.append(viol("b:not-the-nearest-points", f"{tag}: selected distances {np.sort(d_sel)[:6].tolist()}.. vs nearest {best[:6].tolist()}.. (N={N_}, n={n})"))
    return out


def run_oracle(scn, tr):
    v = []
    evals = 0
    nt = False
    labs = set()
    sigs = set()

    def add(items):
        for x in items:
            s = engine.signature(x)
            if s not in sigs:
                sigs.add(s)
                v.append(x)

    D = scn["D"]
    # (b, centre) the surrogate used by a poll step, and the first one fitted in a search step, is centred on the incumbent
    for st_ in tr.steps:
        if st_["kind"] not in ("poll", "search") or st_["entry"] is None:
            continue
        fits = [e for e in tr.events[st_["events_lo"]:] if e.get("type") == "local_fit" and e["phase"] == (st_["kind"], st_["k"])]
        if st_["kind"] == "search":
            fits = fits[:1] if fits and fits[0].get("ncalls_at", st_["call_lo"]) == st_["call_lo"] else []
        for e in fits:
            evals += 1
            if not np.array_equal(e["centre"], st_["entry"]["u"]):
                add([viol("b:local-fit-not-centred-on-incumbent", f"{st_['kind']} step {st_['k']}: training set selected around {e['centre'].tolist()} "
                          f"but the incumbent is {st_['entry']['u'].tolist()}", site=st_["kind"])])
                break
    for e in tr.events:
        t = e.get("type")
        if t == "gp_init":
            evals += 1
            add(rows_in_log(e["gp"], e["log"], e["log"]["he"], "init_and_train_gp"))
            if e["log"]["he"]:
                nt = True
        elif t == "local_fit":
            evals += 1
            add(rows_in_log(e["gp"], e["log"], e["log"]["he"], "local_gp_fitting"))
            b4 = e.get("before")
            if e.get("exit_flag", 0) == -2 and b4 is not None and np.array_equal(e["gp"]["X"], b4["X"]) and np.array_equal(e["gp"]["y"], b4["y"]):
                # the posterior could not be recomputed on the new training set, not even with the previous hyperparameters
                # (numerically singular covariance): the previous GP - training set and posterior - is kept, exactly
                labs.add("fit:posterior-failed-previous-gp-kept")
            elif e.get("fit_failures"):
                # the hyperparameter fit failed numerically inside this call and was retried on a thinned training set
                # (closest pair and worst values dropped): C16's fallback; the rows must still be logged ones
                labs.add("fit:thinned-after-failed-fit")
            else:
                add(selection_oracle(e, "local_gp_fitting"))
            if len(e["log"]["X"]) > len(e["gp"]["X"]):
                nt = True
                labs.add("fit:real-selection")
            if e["log"]["he"]:
                nt = True
                labs.add("fit:specified-noise")
        elif t == "gp_add":
            evals += 1
            g, b4 = e["gp"], e["before"]
            if e.get("update_failed") and len(g["X"]) == len(b4["X"]):
                # the posterior could not be computed with the new point (singular covariance): the previous one is kept,
                # untouched, and the point enters at the next refit
                labs.add("add:update-failed-previous-kept")
                if not (np.array_equal(g["X"], b4["X"]) and np.array_equal(g["y"], b4["y"])):
                    add([viol("c:add-changed-existing-rows", f"failed update left a different training set ({len(b4['X'])} rows)")])
                continue
            # under specified noise a repeated evaluation is merged into its log record; the training row of that point (if any)
            # then has to follow the log: it is replaced by the appended (merged) pair, every other row stays as it was
            dup = np.all(b4["X"] == np.asarray(e["x"], dtype=float).reshape(1, -1), axis=1) if e["he"] and len(b4["X"]) else np.zeros(len(b4["X"]), bool)
            if np.any(dup):
                labs.add("add:repeated-point-under-specified-noise")
                nt = True
            kept_X, kept_y = b4["X"][~dup], b4["y"][~dup]
            ok_replace = np.any(dup) and len(g["X"]) == len(kept_X) + 1 and np.array_equal(g["X"][:-1], kept_X) and np.array_equal(g["y"][:-1], kept_y)
            ok_append = len(g["X"]) == len(b4["X"]) + 1 and np.array_equal(g["X"][:-1], b4["X"]) and np.array_equal(g["y"][:-1], b4["y"])
            if not (ok_replace or ok_append):
                add([viol("c:add-changed-existing-rows", f"before {len(b4['X'])} rows, after {len(g['X'])}")])
                continue
            if np.any(dup):
                # all rows, not only the new one: a stale copy of the merged record must not stay behind
                add(rows_in_log(g, e["log"], e["he"], "add_and_update_gp (repeated point)"))
            yv = float(np.asarray(e["y"]).ravel()[0])
            if not (np.array_equal(g["X"][-1], e["x"]) and float(g["y"][-1, 0]) == yv):
                add([viol("c:add-row-not-the-evaluated-point", f"last row {g['X'][-1].tolist()}, {float(g['y'][-1, 0])!r}; evaluated {e['x'].tolist()}, {yv!r}")])
            if e["he"] and e["sd"] is not None and g["s2"] is not None:
                sd = float(np.asarray(e["sd"]).ravel()[0])
                s2 = float(np.asarray(g["s2"][-1]).ravel()[0])
                if not abs(s2 - sd**2) <= 1e-12 * sd**2:
                    add([viol("c:add-noise-not-sd-squared", f"appended s2={s2!r} for reported SD={sd!r} (SD^2={sd ** 2!r})", site="add_and_update_gp")])
                nt = True
            # (a) for the appended row only (the others were checked when they entered)
            last = dict(X=g["X"][-1:], y=g["y"][-1:], s2=None if g["s2"] is None else g["s2"][-1:])
            add(rows_in_log(last, e["log"], e["he"], "add_and_update_gp"))
        elif t == "acq" and (not e["custom_beta"] or isinstance(scn["options"].get("search_acq_fcn"), dict)):
            evals += 1
            tt = e["func_count"] + 1
            if e["func_count"] != e["ncalls"]:
                add([viol("d:lcb-time-index", f"acquisition called with func_count={e['func_count']} but {e['ncalls']} evaluations were made", site=e["where"])])
            sb = math.sqrt(0.4 * math.log(e["D"] * tt**2 * math.pi**2 / 0.6))
            if e["custom_beta"]:
                sa = scn["options"]["search_acq_fcn"]
                # the generated user schedule is k times the documented one; a constant parameter is used as it is
                sb = sa["k"] * sb if sa["__callable__"] == "lcb_schedule" else float(sa["v"])
            ref = np.asarray(e["mu"], dtype=float) - sb * np.sqrt(np.asarray(e["s2"], dtype=float))
            z = np.asarray(e["z"], dtype=float)
            ok = np.isclose(z, ref.reshape(z.shape), rtol=1e-9, atol=1e-12) | (np.isnan(z) & np.isnan(ref.reshape(z.shape)))
            if z.size and not np.all(ok):
                i = int(np.argmax(~ok.ravel()))
                add([viol("d:lcb-formula", f"{e['where']}: z={z.ravel()[i]!r} reference mean - {sb:.6g}*sd = {ref.ravel()[i]!r} (t={tt}, D={e['D']})",
                          site=e["where"])])
    return v, evals, nt, sorted(labs)


def body_run(scn):
    tr = harness.run(scn, want=("gp", "acq"))
    v, evals, nt, labs = run_oracle(scn, tr)
    labs = harness.run_labels(scn, tr) + labs + ["run"]
    if nt:
        labs.append("run:nontrivial")
    return dict(violations=v, labels=labs, nontrivial=nt, oracle_evals=evals, sample=dict(runlevel.small(scn), ncalls=len(tr.calls)))


# ---------------------------------------------------------------------------------------------
@st.composite
def unit_cases(draw):
    D = draw(st.integers(1, 3))
    n = draw(st.integers(1, 30))
    lat = st.integers(-6, 6)
    pts = draw(st.lists(st.lists(lat, min_size=D, max_size=D), min_size=n, max_size=n, unique_by=lambda p: tuple(p)))
    per_coord = draw(st.booleans())
    ls = [draw(st.sampled_from([1.0, 0.5, 2.0, 0.125])) for _ in range(D)] if per_coord else draw(st.sampled_from([1.0, 0.25, 3.0]))
    return dict(D=D, pts=pts, ls=ls, centre=[draw(lat) for _ in range(D)], n_min=draw(st.sampled_from([1, 3, 5, 50])),
                n_max=draw(st.sampled_from([4, 8, 60])), buffer=draw(st.sampled_from([100, 2])), radius=draw(st.sampled_from([3, 0.5, 10])),
                noise=draw(st.booleans()))


def run_unit(case):
    from pybads.bads.gaussian_process_train import get_grid_search_neighbors
    from pybads.function_logger import FunctionLogger

    D = case["D"]
    h = 0.125
    fl = FunctionLogger(lambda x: (float(np.sum(x**2)), 0.5 + abs(float(x[0]))) if case["noise"] else float(np.sum(x**2)), D, case["noise"],
                        2 if case["noise"] else 0, 4, None)
    for p in case["pts"]:
        fl(np.array(p, dtype=float) * h)

    class G:
        temporary_data = {"len_scale": np.array(case["ls"]) if isinstance(case["ls"], list) else case["ls"], "effective_radius": 1.0}

    opts = {"gp_radius": case["radius"], "n_train_max": case["n_max"], "n_train_min": case["n_min"], "buffer_ntrain": case["buffer"]}
    ostate = {"lb": np.full((1, D), -10.0), "ub": np.full((1, D), 10.0), "scale": 1.0, "periodic_vars": np.zeros((1, D), dtype=bool)}
    centre = np.array(case["centre"], dtype=float) * h
    v = []
    try:
        U, Y, S = get_grid_search_neighbors(fl, centre, G(), opts, ostate)
    except Exception as e:  # noqa: BLE001
        info = harness.exc_info(e)
        return [viol("unit:exception", f"{info['type']}: {info['msg']}", site=info["site"], exc_type=info["type"])], False
    n_log = fl.Xn + 1
    log = dict(X=fl.X[:n_log].copy(), Y=fl.Y[:n_log].copy(), S=fl.S[:n_log].copy() if case["noise"] else None, he=case["noise"])
    gp = dict(X=np.asarray(U), y=np.asarray(Y), s2=None if S is None else np.asarray(S))
    ev = dict(log=log, gp=gp, centre=centre, metric=dict(len_scale=G.temporary_data["len_scale"]),
              opts=dict(n_train_min=case["n_min"], n_train_max=case["n_max"], buffer=case["buffer"]))
    v += rows_in_log(gp, log, case["noise"], "get_grid_search_neighbors")
    # the documented floor n_train_max - buffer_ntrain is part of the configured minimum
    ev["opts"]["n_train_min"] = max(case["n_min"], case["n_max"] - case["buffer"])
    v += selection_oracle(ev, "get_grid_search_neighbors")
    return v, n_log > len(gp["X"])


def body_unit(case):
    v, nt = run_unit(case)
    return dict(violations=v, labels=["unit"] + (["unit:real-selection"] if nt else []) + (["unit:noise"] if case["noise"] else []), nontrivial=nt,
                oracle_evals=1, sample=case)


ADV_EXCLUDE = ()


def plan(tier):
    return [("runs", 16), ("unit", 8), ("advopts", 16)]


def run_part(res, part, tier, seed, shard, nshards):
    if part == "advopts":
        return runlevel.adv_sweep(res, PROFILE, tier, seed, shard, nshards, body_run, exclude=ADV_EXCLUDE)
    if part == "runs":
        runlevel.sweep(res, PROFILE if tier == "quick" else dict(PROFILE, maxD=5, extra_budget=(30, 250)), N[tier], seed, shard, nshards, body_run)
    else:
        engine.hyp_sweep(res, unit_cases(), body_unit, runlevel.shard_count(N_UNIT[tier], shard, nshards), seed * 1000 + 200 + shard)


def minimise(part, tier, sig, case, seed):
    if part in ("runs", "advopts"):
        return runlevel.field_minimise(case, sig, body_run, max_runs=12 if tier == "quick" else 40)
    m = engine.hyp_minimise(unit_cases(), lambda c: any(engine.signature(x) == sig for x in run_unit(c)[0]), 3000, seed)
    return {"case": m or case, "note": "hypothesis shrink" if m else "unminimised"}


def replay(part, case):
    if part in ("runs", "advopts"):
        return runlevel.replay_body(body_run, case)
    return run_unit(case)[0]


def floors(tier):
    return {"run:nontrivial": 40, "unit:real-selection": 300}
