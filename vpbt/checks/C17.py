"""C17 — candidate filtering: no duplicates, nothing infeasible or already evaluated."""
from __future__ import annotations

import itertools

import numpy as np
from hypothesis import strategies as st

from .. import engine, harness, runlevel, scenario
from ..engine import viol

LEVEL = "exploration"
RULE = ("(i) the candidate filter called directly with a real FunctionLogger: exhaustive over a D=1 lattice (all candidate lists "
        "up to length 4 on 6 lattice points incl. out-of-box ones x all subsets of logged points x proj on/off) and a D=2 3x3 "
        "lattice (lists up to length 3 x logs up to 2 points x proj), Hypothesis for D<=3 with off-lattice boxes, mesh "
        "tolerances, near-coincident points and lattice constraints; (ii) every filter call of generated natural runs "
        "(optimum on/outside the box favoured); (iii) multiplicity of points in the call log of deterministic runs. Validity "
        "oracle on the returned set only (one-directional, as the statement): inside the box, feasible, pairwise distinct, not "
        "coinciding (rounded to tol_mesh/2) with a point logged before the call. Non-trivial = filter input containing an "
        "out-of-box row, a duplicate row and an already logged row; runs: optimum on/outside the box.")
ASSUMPTIONS = [
    "'already evaluated' is judged as the code documents it: equality after rounding to tol_mesh/2 in internal coordinates",
    "nothing is demanded about which candidates must be kept (the statement is one-directional)",
]


def make_logger(D, logged):
    from pybads.function_logger import FunctionLogger
    from pybads.variable_transformer import VariableTransformer

    vt = VariableTransformer(D, np.full((1, D), -10.0), np.full((1, D), 10.0), np.full((1, D), -1.0), np.full((1, D), 1.0))
    fl = FunctionLogger(lambda x: float(np.sum(x)), D, False, 0, 4, vt)
    for p in logged:
        fl(np.array(p, dtype=float))
    return fl


def filter_oracle(U_out, lb, ub, tol, logged, cons_viol, tag, site=""):
    """Validity predicate on the returned candidate set."""
    v = []
    U_out = np.atleast_2d(np.asarray(U_out, dtype=float))
    if U_out.size == 0:
        return v
    lb = np.asarray(lb, dtype=float).ravel()
    ub = np.asarray(ub, dtype=float).ravel()
    if not (np.all(U_out >= lb) and np.all(U_out <= ub)):
        bad = U_out[~np.all((U_out >= lb) & (U_out <= ub), axis=1)][0]
        v.append(viol("a:outside-box", f"{tag}: returned row {bad.tolist()} outside [{lb.tolist()}, {ub.tolist()}]", site=site))
    if cons_viol is not None:
        c = np.asarray(cons_viol(U_out), dtype=float)
        if np.any(c > 0):
            v.append(viol("b:infeasible-kept", f"{tag}: returned row {U_out[int(np.argmax(c > 0))].tolist()} violates the constraint", site=site))
    if len({r.tobytes() for r in U_out}) != len(U_out):
        v.append(viol("c:duplicate-rows", f"{tag}: returned set has duplicate rows: {U_out.tolist()[:6]}", site=site))
    if logged is not None and len(logged):
        t = tol / 2.0
        L = {tuple(np.round(np.asarray(p, dtype=float) / t).tolist()) for p in logged}
        for r in U_out:
            if tuple(np.round(r / t).tolist()) in L:
                v.append(viol("d:already-evaluated-kept", f"{tag}: returned row {r.tolist()} coincides (tol_mesh/2={t}) with a logged point", site=site))
                break
    return v


# ---------------------------------------------------------------------------------------------
# exhaustive lattices
# ---------------------------------------------------------------------------------------------
def run_exhaustive(res, tier, shard, nshards):
    from pybads.function_logger import contraints_check

    h = 2.0**-3
    # D = 1: lattice -3..2 (h units), box [-2h, h]  => -3h and 2h are out of the box
    pts1 = [(-3 * h,), (-2 * h,), (-h,), (0.0,), (h,), (2 * h,)]
    inner1 = [p for p in pts1 if -2 * h <= p[0] <= h]
    lb1, ub1 = np.array([[-2 * h]]), np.array([[h]])
    jobs = []
    for L in range(1, 5):
        for cand in itertools.product(range(len(pts1)), repeat=L):
            jobs.append(("D1", cand))
    # D = 2: 3x3 lattice in {-h,0,h}^2 plus box [-h, h/2]^2 so that the h row/col is outside
    pts2 = [(a * h, b * h) for a in (-1, 0, 1) for b in (-1, 0, 1)]
    lb2, ub2 = np.array([[-h, -h]]), np.array([[0.5 * h, 0.5 * h]])
    inner2 = [p for p in pts2 if p[0] <= 0.5 * h and p[1] <= 0.5 * h]
    for L in range(1, 4):
        for cand in itertools.product(range(len(pts2)), repeat=L):
            jobs.append(("D2", cand))
    log_sets1 = [s for r in range(0, len(inner1) + 1) for s in itertools.combinations(inner1, r)]
    log_sets2 = [s for r in range(0, 3) for s in itertools.combinations(inner2, r)]
    tol = h  # mesh tolerance equal to the lattice step: rounding to tol/2 keeps lattice points distinct
    cons = lambda X: (np.sum(np.asarray(X), axis=1) > 1.5 * h).astype(float)  # noqa: E731  rejects the far corner
    for ji, (kind, cand) in enumerate(jobs):
        if ji % nshards != shard:
            continue
        pts, lb, ub, log_sets, D = (pts1, lb1, ub1, log_sets1, 1) if kind == "D1" else (pts2, lb2, ub2, log_sets2, 2)
        U = np.array([pts[i] for i in cand], dtype=float).reshape(len(cand), D)
        has_out = bool(np.any((U < lb) | (U > ub)))
        has_dup = len(set(cand)) < len(cand)
        for logged in log_sets:
            fl = make_logger(D, logged)
            has_logged = any(tuple(r) in set(logged) for r in U.tolist())
            for proj in (True, False):
                for use_cons in ((False, True) if kind == "D2" else (False,)):
                    out = contraints_check(U.copy(), lb, ub, tol, fl, proj, cons if use_cons else None)
                    case = dict(kind=kind, cand=[list(pts[i]) for i in cand], logged=[list(p) for p in logged], proj=proj,
                                cons=use_cons, lb=lb.tolist(), ub=ub.tolist(), tol=tol)
                    v = filter_oracle(out, lb, ub, tol, logged, (lambda X: cons(fl.variable_transformer.inverse_transf(X))) if use_cons else None,
                                      "exhaustive", site="unit")
                    nt = has_out and has_dup and has_logged
                    res.add_case(case, v, labels=[f"exh:{kind}"] + (["exh:nontrivial"] if nt else []), nontrivial=nt,
                                 oracle_evals=1, sample=dict(case, out=np.asarray(out).tolist()))
    res.exhaustive = True


def replay_unit(case):
    from pybads.function_logger import contraints_check

    D = len(case["cand"][0])
    fl = make_logger(D, case["logged"])
    h = 2.0**-3
    cons = None
    if case.get("cons"):
        if case.get("cons_kind", "corner") == "corner":
            cons = lambda X: (np.sum(np.asarray(X), axis=1) > 1.5 * h).astype(float)  # noqa: E731
        else:
            a = np.array(case["cons_a"], dtype=float)
            cons = lambda X: np.asarray(X) @ a - case["cons_b"]  # noqa: E731
    U = np.array(case["cand"], dtype=float).reshape(-1, D)
    lb, ub = np.array(case["lb"], dtype=float).reshape(1, D), np.array(case["ub"], dtype=float).reshape(1, D)
    out = contraints_check(U.copy(), lb, ub, case["tol"], fl, case["proj"], cons)
    cv = (lambda X: cons(fl.variable_transformer.inverse_transf(X))) if cons else None
    return filter_oracle(out, lb, ub, case["tol"], case["logged"], cv, "unit", site="unit"), out, U


@st.composite
def unit_cases(draw):
    D = draw(st.integers(1, 3))
    e = -draw(st.integers(1, 12))  # (a negative-only integer range is rejected by fuzz_one_input)
    tol = 2.0**e
    hstep = tol * draw(st.sampled_from([1, 1, 2, 8]))
    lat = st.integers(-4, 4)
    jitter = st.sampled_from([0.0, 0.0, 0.0, tol * 0.2, -tol * 0.2, tol * 0.26, 1e-13])
    pt = st.lists(st.tuples(lat, jitter), min_size=D, max_size=D).map(lambda l: [a * hstep + j for a, j in l])
    cand = draw(st.lists(pt, min_size=1, max_size=8))
    logged = draw(st.lists(pt, min_size=0, max_size=6, unique_by=lambda p: tuple(p)))
    # reuse some logged / candidate points to make coincidences frequent
    if logged and draw(st.booleans()):
        cand = cand + [list(draw(st.sampled_from(logged)))]
    if draw(st.booleans()):
        cand = cand + [list(draw(st.sampled_from(cand)))]
    lo = [draw(st.sampled_from([-3, -2, -1.5])) * hstep for _ in range(D)]
    hi = [draw(st.sampled_from([3, 2, 1.5, 0.5])) * hstep for _ in range(D)]
    use_cons = draw(st.booleans())
    a = [draw(st.sampled_from([1.0, -1.0, 0.0])) for _ in range(D)]
    return dict(cand=cand, logged=logged, lb=lo, ub=hi, tol=tol, proj=draw(st.booleans()), cons=use_cons, cons_kind="half",
                cons_a=a, cons_b=draw(st.sampled_from([0.0, 1.0, -1.0])) * hstep)


def body_unit(case):
    # logged points must lie inside the logger's own transformer box (|x| <= 10): always true for the lattice
    v, out, U = replay_unit(case)
    lb, ub = np.array(case["lb"]), np.array(case["ub"])
    has_out = bool(np.any((U < lb) | (U > ub)))
    has_dup = len({r.tobytes() for r in U}) < len(U)
    L = {tuple(p) for p in case["logged"]}
    has_logged = any(tuple(r) in L for r in U.tolist())
    nt = has_out and has_dup and has_logged
    return dict(violations=v, labels=["unit"] + (["unit:nontrivial"] if nt else []), nontrivial=nt, oracle_evals=1,
                sample=dict(case, out=np.asarray(out).tolist()))


# ---------------------------------------------------------------------------------------------
# run level
# ---------------------------------------------------------------------------------------------
PROFILE = scenario.profile(maxD=3, extra_budget=(10, 70), cons_x0=("margin",), p_cons=0.35,
                           c_classes=("inside", "on_bound", "on_bound", "outside", "outside", "far"),
                           max_iter_choices=(None,), tol_mesh_choices=(None, None, 1e-3),
                           # a coarse search mesh and a large design make mesh-node collisions inside one candidate set likely
                           extra_opts=(("search_grid_number", (3, 5), 0.15),), p_fes=0.25, fes_choices=(0, 1, "2D", 10, 64, 128))
N = {"quick": 192, "thorough": 3000}
N_UNIT = {"quick": 6000, "thorough": 200000}


def body_run(scn):
    tr = harness.run(scn, want=("filter",))
    v = []
    evals = 0
    cons_viol = None
    if scn.get("cons") is not None and tr.bads is not None and hasattr(tr.bads, "var_transf"):
        from .. import targets as T
        vt = tr.bads.var_transf
        cs = dict(scn["cons"], ret="real")
        cons_viol = lambda U: T.violation(cs, vt.inverse_transf(np.atleast_2d(U))) - 1e-9  # noqa: E731
    nt_calls = 0
    for e in tr.events:
        if e.get("type") != "filter":
            continue
        evals += 1
        # the scenario's constraint applies to every candidate set of the run, whatever the call site passed on
        v += [x for x in filter_oracle(e["out"], e["lb"], e["ub"], e["tol"], e["logged"], cons_viol,
                                       f"run {e['where']} {e['phase']}", site=f"{e['where']}:{e['phase'][0]}")
              if engine.signature(x) not in {engine.signature(y) for y in v}]
        Uin = np.atleast_2d(e["Uin"])
        if Uin.size:
            out_box = bool(np.any((Uin < e["lb"]) | (Uin > e["ub"])))
            dup = len({r.tobytes() for r in Uin}) < len(Uin)
            if out_box and dup:
                nt_calls += 1
    # (e) deterministic targets: no point evaluated twice, except one repeat of the first point
    det = tr.bads is not None and hasattr(tr.bads, "optim_state") and tr.bads.optim_state.get("uncertainty_handling_level", 1) == 0
    if det and tr.calls:
        seen = {}
        for c in tr.calls:
            seen.setdefault(c["x"].tobytes(), []).append(c["i"])
        first = tr.calls[0]["x"].tobytes()
        for key, idx in seen.items():
            allowed = 2 if key == first else 1
            if len(idx) > allowed:
                v.append(viol("e:deterministic-point-evaluated-twice", f"point {np.frombuffer(key).tolist()} evaluated at calls {idx[:6]} "
                              f"(phases {[tr.calls[i - 1]['phase'] for i in idx[:6]]})"))
                break
        evals += 1
    # (c, run form) the initial design handed on for evaluation is pairwise distinct: no two design evaluations coincide
    # (a coincidence with the starting point is the known 'already evaluated' finding and is not counted here)
    init_calls = [c for c in tr.calls if c["phase"] == "init"]
    if len(init_calls) > 2:
        x0b = init_calls[0]["x"].tobytes()
        seen_d = {}
        for c in init_calls[1:]:
            kx = c["x"].tobytes()
            if kx == x0b:
                continue
            if kx in seen_d:
                v.append(viol("c:design-points-not-distinct", f"initial-design evaluations {seen_d[kx]} and {c['i']} are at the same point {c['x'].tolist()}"))
                break
            seen_d[kx] = c["i"]
        evals += 1
    labs = harness.run_labels(scn, tr) + ["run"]
    onb = any(c in ("on_bound", "outside", "far") for c in scn["target"].get("ccls", []))
    nt = bool(onb and tr.result is not None)
    if nt:
        labs.append("run:optimum-on-or-outside")
    if nt_calls:
        labs.append("run:filter-input-outbox+dup")
    return dict(violations=v, labels=labs, nontrivial=nt, oracle_evals=evals, sample=dict(runlevel.small(scn), ncalls=len(tr.calls)))


ADV_EXCLUDE = ()


def plan(tier):
    return [("exhaustive", 16), ("unit", 8), ("runs", 16), ("advopts", 16)] + ([("fuzz", 16)] if tier == "thorough" else [])


def run_part(res, part, tier, seed, shard, nshards):
    if part == "advopts":
        return runlevel.adv_sweep(res, PROFILE, tier, seed, shard, nshards, body_run, exclude=ADV_EXCLUDE)
    if part == "fuzz":
        # coverage-guided campaign (atheris/libFuzzer) on the same Hypothesis test, empty corpus, fixed -runs and -seed
        return engine.run_fuzz_part(res, "C17", "fuzz", 20000, seed, shard)
    if part == "exhaustive":
        run_exhaustive(res, tier, shard, nshards)
    elif part == "unit":
        engine.hyp_sweep(res, unit_cases(), body_unit, runlevel.shard_count(N_UNIT[tier], shard, nshards), seed * 1000 + 300 + shard)
    else:
        runlevel.sweep(res, PROFILE if tier == "quick" else dict(PROFILE, maxD=6, extra_budget=(10, 250)), N[tier], seed, shard,
                       nshards, body_run)


def minimise(part, tier, sig, case, seed):
    if part in ("runs", "advopts"):
        return runlevel.field_minimise(case, sig, body_run, max_runs=12 if tier == "quick" else 40)
    if part in ("unit", "fuzz"):
        m = engine.hyp_minimise(unit_cases(), lambda c: any(engine.signature(x) == sig for x in body_unit(c)["violations"]), 3000, seed)
        return {"case": m or case, "note": "hypothesis shrink" if m else "unminimised"}
    return {"case": case, "note": "exhaustive lattice case"}


def replay(part, case):
    if part in ("runs", "advopts"):
        return runlevel.replay_body(body_run, case)
    return replay_unit(case)[0]


def floors(tier):
    return {"exh:nontrivial": 500, "unit:nontrivial": 100, "run:optimum-on-or-outside": 30}


def fuzz_entry(entry):
    return unit_cases(), body_unit
