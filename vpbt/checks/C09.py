"""C09 — every valid problem runs to completion in every supported mode (DESIGN.md §5 C09)."""
from __future__ import annotations

import numpy as np

from .. import engine, harness, runlevel, scenario
from ..engine import viol

LEVEL = "exploration"
RULE = ("Hypothesis-generated valid problems across all supported modes (deterministic / auto-detected / declared / "
        "specified noise in both documented spellings, with and without constraints, linear and log coordinates, small "
        "max_iter, tiny caches, sub-design budgets as a labelled minority) plus constructed rare paths (GP.fit "
        "failures, non-finite GP prediction at the incumbent, every ES candidate infeasible) plus the 'options' part: the same "
        "problems with 1-3 of ~80 advanced options set to non-default values of the default's type. Oracle: BADS(...) and "
        "optimize() return an OptimizeResult; any escaping exception is a violation bucketed by (type, innermost pybads "
        "frame). Non-trivial = run in a non-default mode (noise, constraint, log transform or small budget) that executed "
        ">= 1 search step; distinct by scenario digest.")
ASSUMPTIONS = [
    "generated targets are well behaved (finite real scalars, positive finite SDs); with thin/boundary constraint regions a ValueError that names the infeasible start is the contract (C02), not a crash",
    "option values whose path announces itself as unimplemented (init_fun other than init_sobol, acq_hedge, periodic_vars, fun_values, output_fcn, plot, warp_func) are not generated; every other option the code reads is (scenario.ADV_OPTS, 1-3 non-default values per case in the 'options' part)",
]

PROFILE = scenario.profile(
    out_spellings=("float", "float", "np", "arr1", "arr11", "arr0", "np32"),
    maxD=3,
    allow_mixed_unbounded=True,  # bounded and unbounded variables in one problem (valid since the per-variable half-bounds fix)
    noise_modes=("none", "none", "auto", "declared", "specified", "specified"),
    specified_spellings=("both", "both", "alone"),
    cons_x0=("margin", "margin", "margin", "snap_only", "boundary"),
    specified_noise_size=True,
    p_cons=0.35,
    p_subdesign=0.04,
    extra_budget=(0, 60),
    c_classes=("inside", "hardbox", "on_bound", "on_bound", "outside", "far"),
    target_kinds=("quad", "quad", "l1", "maxn", "plateau", "plateau", "rosen", "linear", "const"),
    # steep targets (values up to ~1e6-1e7) with a small reported SD make the GP covariance numerically singular
    scales=(1.0, 1.0, 1e-2, 10.0, 1e2, 1e4, 1e5, 1e6, 1e6),
    # population sizes of the evolution strategies (mu = n_search / n_search_iter: odd, tiny, not a multiple of anything)
    extra_opts=(("n_search_iter", (3, 5, 1, 7), 0.08), ("n_search", (1000, 333, 2**10 + 1, 64), 0.06)),
)
PROFILE_T = dict(PROFILE, maxD=6, extra_budget=(0, 200))
N = {"quick": 400, "thorough": 6000}
N_RARE = {"quick": 96, "thorough": 1200}


def _fix(scn):
    """C09's domain: no x0=None together with a constraint (a random start may legitimately be infeasible)."""
    if scn.get("cons") is not None and scn.get("x0") is None:
        scn = dict(scn, cons=None)
    return scn


def classify(scn, tr):
    nondefault = (scn["target"]["noise"]["mode"] != "none" or scn.get("cons") is not None
                  or scn.get("budget_cls") == "subdesign" or "max_iter" in scn["options"]
                  or (tr.bads is not None and hasattr(tr.bads, "var_transf") and bool(np.any(tr.bads.var_transf.apply_log_t))))
    nsearch = sum(1 for s in tr.steps if s["kind"] == "search")
    return bool(nondefault and nsearch >= 1)


def body(scn, rare=None):
    scn = _fix(scn)
    kw = {}
    if rare:
        kw = rare_kwargs(scn, rare)
    tr = harness.run(scn, **kw)
    v = []
    expected_rejection = False
    if tr.ctor_exc is not None and scn.get("cons") is not None and scn["cons"].get("x0cls") != "margin" and tr.ctor_exc["type"] == "ValueError" \
            and ("does not satisfy non-bound constraints" in tr.ctor_exc["msg"] or "does no longer satisfy non-bound constraint" in tr.ctor_exc["msg"]):
        expected_rejection = True  # thin / boundary regions: the start may legitimately be infeasible (C02 decides whether it is)
    if expected_rejection:
        pass
    elif tr.ctor_exc is not None or tr.run_exc is not None:
        v.append(runlevel.exc_violation(tr))
    elif tr.result is None or type(tr.result).__name__ != "OptimizeResult":
        v.append(viol("no-result", f"optimize() returned {type(tr.result).__name__}"))
    labs = harness.run_labels(scn, tr)
    mode = scn["target"]["noise"]["mode"]
    cell = f"cell:{mode}/{'cons' if scn.get('cons') else 'nocons'}/" + (
        "log" if "transform=log" in labs else "lin")
    labs.append(cell)
    if scn.get("budget_cls") == "subdesign":
        labs.append("budget=subdesign")
    if expected_rejection:
        labs.append("expected-x0-rejection")
    if scn.get("cons") is not None and scn["cons"].get("x0cls") != "margin":
        labs.append("cons=thin-or-boundary")
    if rare:
        labs.append("rare=" + rare["kind"])
        labs += [f"rare-hit:{k}" for k in getattr(tr, "rare_hits", [])]
    nt = classify(scn, tr)
    if nt:
        labs.append("nontrivial")
    return dict(violations=v, labels=labs, nontrivial=nt, oracle_evals=1,
                sample=dict(runlevel.small(scn), ncalls=len(tr.calls), rare=rare))


# ---------------------------------------------------------------------------------------------
# Constructed rare paths
# ---------------------------------------------------------------------------------------------
def rare_kwargs(scn, rare):
    import numpy as np

    kind = rare["kind"]
    if kind == "fit_faults":
        return dict(fit_faults=set(rare["idx"]))
    if kind == "es_all_infeasible":
        # the scripted search returns an empty candidate set / a candidate the filter removes
        def search_script(tr, hedge, u, lb, ub, fl, gp, optim_state):
            mode = rare["modes"][len([e for e in tr.events if e.get("type") == "scripted_search"]) % len(rare["modes"])]
            tr.events.append(dict(type="scripted_search", mode=mode))
            if mode == "real":
                return None
            if mode == "evaluated":
                return fl.X[0].copy(), np.array([0.0])
            if mode == "incumbent":
                return np.array(u, dtype=float).ravel().copy(), np.array([0.0])
            if mode == "empty":
                return np.empty((0, np.size(u))), np.empty(0)  # every candidate of every generation was infeasible
            return None
        return dict(search_script=search_script)
    if kind == "nonfinite_predict":
        return dict(pre_optimize=_install_nan_predict(rare))
    return {}


def _install_nan_predict(rare):
    def pre(tr):
        # Make the GP prediction *at the incumbent* (the predict call inside BADS._get_target_from_gp_)
        # non-finite on chosen invocation indices: exactly the rare history the statement names.
        import pybads.bads.bads as BB
        from gpyreg.gaussian_process import GP

        orig_predict = GP.predict
        orig_target = BB.BADS._get_target_from_gp_
        state = {"n": 0, "armed": False}
        hits = set(rare["idx"])

        def predict(self, x_star, *a, **k):
            out = orig_predict(self, x_star, *a, **k)
            if state["armed"]:
                state["armed"] = False
                tr.rare_hits = getattr(tr, "rare_hits", []) + ["nan-predict"]
                mu = np.array(out[0], dtype=float, copy=True)
                mu[:] = np.nan if rare.get("what", "nan") == "nan" else np.inf
                return (mu,) + tuple(out[1:])
            return out

        def target(self, u, gp, hyp_best):
            i = state["n"]
            state["n"] += 1
            state["armed"] = i in hits
            try:
                return orig_target(self, u, gp, hyp_best)
            finally:
                state["armed"] = False

        GP.predict = predict
        BB.BADS._get_target_from_gp_ = target
        tr._restore = lambda: (setattr(GP, "predict", orig_predict), setattr(BB.BADS, "_get_target_from_gp_", orig_target))
    return pre


def rare_strategy(prof):
    from hypothesis import strategies as st

    @st.composite
    def s(draw):
        scn = draw(scenario.scenario(prof))
        kind = draw(st.sampled_from(["fit_faults", "fit_faults", "es_all_infeasible", "nonfinite_predict"]))
        if kind == "fit_faults":
            start = draw(st.integers(0, 12))
            run = draw(st.integers(1, 4))
            rare = dict(kind=kind, idx=list(range(start, start + run)))
        elif kind == "es_all_infeasible":
            rare = dict(kind=kind, modes=draw(st.lists(st.sampled_from(["evaluated", "incumbent", "real", "empty", "empty"]), min_size=1, max_size=4)))
        else:
            rare = dict(kind=kind, idx=sorted(set(draw(st.lists(st.integers(0, 40), min_size=1, max_size=6)))),
                        what=draw(st.sampled_from(["nan", "inf"])))
        return dict(scn=scn, rare=rare)
    return s()


def body_rare_safe(case):
    import pybads.bads.bads as BB
    from gpyreg.gaussian_process import GP

    orig, orig_t = GP.predict, BB.BADS._get_target_from_gp_
    try:
        return body(case["scn"], case["rare"])
    finally:
        GP.predict = orig
        BB.BADS._get_target_from_gp_ = orig_t


N_LONG = {"quick": 32, "thorough": 320}


def body_long(subseed):
    """Default-budget runs on the smooth family of C06 (all three box geometries): long trajectories reach numerical
    corner cases of the GP that the short generated runs do not."""
    from . import C06

    p = C06.problem(subseed)
    v = []
    try:
        C06.run_problem(p)
    except Exception as e:  # noqa: BLE001
        info = harness.exc_info(e)
        v.append(viol("crash:optimize", f"default-option run on a smooth quadratic (D={p['D']}, {p['variant']} box, sub-seed {p['subseed']}): "
                      f"{info['type']}: {info['msg']} @ {info['site']}\n{info['tb'][-500:]}", site=info["site"], exc_type=info["type"]))
    return dict(violations=v, labels=["long", "long:" + p["variant"], f"long:D={p['D']}"], nontrivial=p["D"] >= 2, oracle_evals=1,
                sample=dict(subseed=p["subseed"], D=p["D"], variant=p["variant"]))


N_STEEP = {"quick": 48, "thorough": 600}


def steep_cases():
    """Steep targets (values 1e4..1e7) with a small noise SD and the minimiser in a corner of the box, budgets of 120-250
    evaluations: the regime in which the GP covariance becomes numerically singular on its own (no fault injection)."""
    from hypothesis import strategies as st

    @st.composite
    def s(draw):
        D = draw(st.integers(1, 3))
        kind = draw(st.sampled_from(["quad", "l1", "quad"]))
        scale = draw(st.sampled_from([1e4, 1e5, 1e6, 2.5e6]))
        mode = draw(st.sampled_from(["specified", "specified", "declared"]))
        corner = [draw(st.sampled_from([-1.0, 1.0, -1.0])) for _ in range(D)]
        tgt = dict(kind=kind, c=corner, scale=scale, offset=0.0, z=dict(m=[0.0] * D, w=[5.0] * D, log=[False] * D), out="float",
                   ccls=["on_bound"] * D, noise=dict(mode=mode, sigma=draw(st.sampled_from([1e-3, 1e-3, 1e-2])), hetero=0.0))
        if kind == "quad":
            tgt["A"] = [[1.0 if i == j else 0.0 for j in range(D)] for i in range(D)]
        opts = {"random_seed": draw(st.integers(0, 1000)), "max_fun_evals": draw(st.sampled_from([120, 200, 250])), "display": "off"}
        if mode == "specified":
            opts["specify_target_noise"] = True
        else:
            opts["uncertainty_handling"] = True
        x0 = [draw(st.sampled_from([1.5, 0.0, -4.0, 4.5])) for _ in range(D)]
        return dict(D=D, coords=[dict(cls="tight", lb=-5.0, ub=5.0, plb=-5.0, pub=5.0)] * D, plaus_omitted=True, x0=x0, x0cls=["interior"] * D,
                    spelling="a1", target=tgt, cons=None, options=opts, np_seed=draw(st.integers(0, 10**6)), budget_cls="normal",
                    init_calls_pred=33)
    return s()


def body_steep(scn):
    out = body(scn)
    out["labels"] = list(out["labels"]) + ["steep"]
    return out


def plan(tier):
    return [("runs", 16), ("rare", 16), ("long", 16), ("steep", 16), ("logedge", 8), ("options", 16), ("fitlik", 2), ("quietflat", 16)]


N_OPT = {"quick": 320, "thorough": 6000}


def body_options(scn):
    out = body(scn)
    out["labels"] = list(out["labels"]) + ["options"] + [f"opt:{n}" for n in scn.get("adv", [])]
    return out


def body_fitlik(scn):
    """fit_lik = False (fixed GP noise) asks gpyreg for a 'delta' hyperprior that it does not have: known finding."""
    out = body(scn)
    for x in out["violations"]:
        if x.get("exc_type") == "ValueError" and "Unknown hyperprior type delta" in x["detail"]:
            x["clause"] = "crash:fit_lik=False"
    out["labels"] = list(out["labels"]) + ["options", "opt:fit_lik"]
    return out


def run_part(res, part, tier, seed, shard, nshards):
    prof = PROFILE if tier == "quick" else PROFILE_T
    if part == "options":
        return runlevel.sweep(res, None, N_OPT[tier], seed + 4242, shard, nshards, body_options,
                              strategy=scenario.with_adv_opts(dict(prof, p_subdesign=0.0, extra_budget=(10, 70))))
    if part == "quietflat":
        # declared / specified noise on targets that return exactly the same value everywhere (or on wide plateaus): the GP is
        # trained on values without any spread
        return runlevel.sweep(res, dict(prof, target_kinds=("const", "const", "plateau"), noise_modes=("declared", "specified"),
                                        p_quiet_noise=1.0, p_subdesign=0.0, extra_budget=(10, 60)),
                              48 if tier == "quick" else 600, seed + 77, shard, nshards, body)
    if part == "fitlik":
        return runlevel.sweep(res, dict(prof, p_subdesign=0.0, extra_budget=(10, 30), extra_opts=(("fit_lik", (False,), 1.0),)),
                              4 if tier == "quick" else 32, seed + 99, shard, nshards, body_fitlik)
    if part == "long":
        from hypothesis import strategies as st
        engine.hyp_sweep(res, st.integers(0, 2**32 - 1), body_long, runlevel.shard_count(N_LONG[tier], shard, nshards), seed * 1000 + 600 + shard,
                         case_timeout=1800)
    elif part == "logedge":
        runlevel.sweep(res, scenario.logedge_profile(), 96 if tier == "quick" else 1500, seed + 17, shard, nshards, body)
    elif part == "steep":
        runlevel.sweep(res, None, N_STEEP[tier], seed + 271, shard, nshards, body_steep, strategy=steep_cases(), case_timeout=1800)
    elif part == "runs":
        runlevel.sweep(res, prof, N[tier], seed, shard, nshards, body)
    else:
        runlevel.sweep(res, prof, N_RARE[tier], seed + 7919, shard, nshards, body_rare_safe,
                       strategy=rare_strategy(dict(prof, p_subdesign=0.0, extra_budget=(10, 60),
                                                   # (an optimistic improvement quantile turns "nothing evaluated" into a positive number)
                                                   extra_opts=(("improvement_quantile", (0.75, 0.6, 0.9), 0.3),))))


def minimise(part, tier, sig, case, seed):
    mr = 12 if tier == "quick" else 40
    if part == "long":
        return {"case": case, "note": "problem sub-seed (a single integer)"}
    if part in ("runs", "steep", "logedge", "options", "quietflat"):
        return runlevel.field_minimise(case, sig, body, max_runs=mr)
    if part == "fitlik":
        return runlevel.field_minimise(case, sig, body_fitlik, max_runs=mr)

    def simp(c):
        for d, s2 in scenario.simplifications(c["scn"]):
            yield d, dict(scn=s2, rare=c["rare"])
    return runlevel.field_minimise(case, sig, body_rare_safe, max_runs=mr, simplifier=simp)


def replay(part, case):
    if part == "long":
        return body_long(case if isinstance(case, dict) else int(case))["violations"]
    if part == "rare":
        return runlevel.replay_body(body_rare_safe, case)
    if part == "fitlik":
        return runlevel.replay_body(body_fitlik, case)
    return runlevel.replay_body(body, case)


def floors(tier):
    return {"nontrivial": 40}
