"""C16 — numerical failure of a GP hyperparameter fit never aborts the optimisation."""
from __future__ import annotations

from hypothesis import strategies as st

from .. import engine, harness, runlevel, scenario
from ..engine import viol
from . import C01, C03, C04, C05

LEVEL = "fault_enumeration"
TECHNIQUE = "fault injection enumerated over GP.fit invocation indices (single, runs of 2-4, scattered) on Hypothesis-generated scenarios; run-level oracles of C01/C03/C04/C05 re-applied to every faulted run"
RULE = ("For each generated scenario (deterministic, unknown-noise and specified-noise modes) a clean run gives the number m of "
        "GP.fit invocations; GP.fit is then made to raise LinAlgError at index sets: every single k, runs of 2, 3 and 4 "
        "consecutive invocations from every k, scattered pairs/triples (quick tier: first/middle/last k; thorough tier: every "
        "k < min(m, 14)). Oracle: optimize() returns an OptimizeResult and the bounds (C01), budget/counting/termination (C03), "
        "and truthful-result (C04 deterministic / C05 noisy) oracles hold on the faulted run. Non-trivial = plan with >= 2 "
        "consecutive faults in a noisy mode, or a fault in a local refit (k >= 1); distinct by (scenario, plan).")
ASSUMPTIONS = [
    "failures are injected at the GP.fit seam (gpyreg), the place the statement names; posterior updates (GP.update) are not faulted",
    "runs of more than 4 consecutive failures are outside the statement's quantifier",
]

PROFILE = scenario.profile(maxD=3, extra_budget=(15, 60), cons_x0=("margin",), p_cons=0.15, p_seed_none=0.0,
                           noise_modes=("declared", "none", "specified", "auto", "none", "specified"), specified_spellings=("both", "alone"),
                           max_iter_choices=(None,), tol_mesh_choices=(None,), target_kinds=("quad", "l1", "rosen", "maxn"),
                           # documented option that switches on the warning path taken after a failed fit attempt
                           # and the other GP mean functions: their hyperparameter priors differ (negquad leaves some unset),
                           # and the retry after a failed fit draws new hyperparameters from those priors
                           extra_opts=(("gp_warnings", (True,), 0.25), ("gp_mean_fun", ("negquad", "zero", "negquad"), 0.3),
                                       # the alternative retry path: new hyperparameters from a slice sampler instead of the priors
                                       ("use_slice_sampler", (True,), 0.2)))
N = {"quick": 32, "thorough": 128}


def plans_for(m, tier, salt):
    if m <= 0:
        return []
    if tier == "thorough":
        ks = list(range(min(m, 14)))
    else:
        ks = sorted({0, m // 2, m - 1, (salt % m)})
    plans = []
    for k in ks:
        plans.append([k])
    for k in ks:
        for L in (2, 3, 4):
            plans.append(list(range(k, k + L)))
    # failures in the closing step of a fit (after gpyreg has emptied its posterior slots): the initial fit and one refit
    plans.append([-1])
    if m >= 2:
        plans.append([-(m // 2) - 1])
        plans.append([-1, 1])
    if m >= 3:
        plans.append([0, m // 2])
        plans.append([0, m // 2, m - 1])
        plans.append([salt % m, (salt // 7) % m + m // 2])
    uniq = []
    for p in plans:
        p = sorted(set(p))
        if p not in uniq:
            uniq.append(p)
    return uniq


def check_plan(scn, plan):
    # (negative entries -(k+1): fit k fails in its closing posterior update instead of at the start)
    tr = harness.run(scn, want=("improve",), fit_faults={p_ for p_ in plan if p_ >= 0}, fit_closing={-p_ - 1 for p_ in plan if p_ < 0})
    v = []
    hit = [e for e in tr.events if e.get("type") == "fit_fault"]
    tag = f"GP.fit failing at invocations {[p_ if p_ >= 0 else 'closing step of %d' % (-p_ - 1) for p_ in plan]}"
    if tr.ctor_exc is not None:
        return [], tr, hit
    if tr.run_exc is not None:
        e = tr.run_exc
        v.append(viol("completes:exception", f"{tag}: {e['type']}: {e['msg'][:160]} @ {e['site']}", site=e["site"], exc_type=e["type"]))
        return v, tr, hit
    uhl = int(tr.bads.optim_state["uncertainty_handling_level"])
    for name, res in (("C01", C01.oracle(scn, tr)[0]), ("C03", C03.oracle(scn, tr)[0]),
                      ("C04" if uhl == 0 else "C05", (C04.oracle(scn, tr)[0] if uhl == 0 else C05.run_oracle(scn, tr)[0]))):
        for x in res:
            v.append(viol(f"guarantee:{name}:{x['clause']}", f"{tag}: {x['detail']}", site=x.get("site", "")))
    return v, tr, hit


def body(scn, tier="quick"):
    ref = harness.run(scn)
    labs = harness.run_labels(scn, ref)
    if ref.result is None:
        return dict(violations=[], labels=labs + ["skipped:no-reference-run"], nontrivial=False, oracle_evals=0, sample=None, ntriv=[])
    m = ref.fit_count
    mode = scn["target"]["noise"]["mode"]
    plans = plans_for(m, tier, scn["np_seed"])
    out, seen, ntriv = [], set(), []
    evals = 0
    for p in plans:
        v, tr, hit = check_plan(scn, p)
        evals += 1
        consec = any(b - a == 1 for a, b in zip(p, p[1:]) if a >= 0)
        if any(x_ < 0 for x_ in p):
            labs.append("plan:closing-step")
        labs.append(f"plan:{'run' + str(len(p)) if consec and len(p) > 1 else ('single' if len(p) == 1 else 'scattered')}/{mode}")
        if len(hit) >= 1 and ((consec and mode != "none" and len(hit) >= 2) or any(h["i"] >= 1 for h in hit)):
            ntriv.append(tuple(p))
        if any(h["phase"][0] in ("search", "poll") for h in hit):
            labs.append("fault-in-local-refit")
        for x in v:
            s = (x["clause"], x["site"], x.get("exc_type"))
            if s not in seen:
                seen.add(s)
                out.append(x)
    return dict(violations=out, labels=sorted(set(labs)), nontrivial=bool(ntriv), oracle_evals=evals,
                sample=dict(runlevel.small(scn), fits=m, plans=plans[:8]), ntriv=ntriv)


def plan(tier):
    return [("fitfaults", 8 if tier == "quick" else 16)]


def run_part(res, part, tier, seed, shard, nshards):
    def b(scn):
        out = body(scn, tier)
        for p in out.pop("ntriv", []):
            res.nontrivial.add(engine.digest((engine.digest(scn), list(p))))
        return out

    runlevel.sweep(res, PROFILE, N[tier], seed, shard, nshards, b, case_timeout=3600)


def minimise(part, tier, sig, case, seed):
    return runlevel.field_minimise(case, sig, lambda c: body(c, "quick"), max_runs=5)


def replay(part, case):
    if isinstance(case, dict) and "plan" in case and "scn" in case:
        return check_plan(case["scn"], case["plan"])[0]
    return body(case, "quick")["violations"]


def floors(tier):
    return {"fault-in-local-refit": 5}
