"""JSON-describable target and constraint families. Everything is a pure function of the spec
(plus, for noisy targets, NumPy's *global* generator, which BADS seeds from options['random_seed'])."""
from __future__ import annotations

import numpy as np


# ---------------------------------------------------------------------------------------------
# Normalised coordinates: z_i = (x_i - m_i) / w_i  (or (log x_i - m_i) / w_i for log coordinates),
# built by the generator from the plausible box so that the plausible box is z in [-1, 1]^D.
# ---------------------------------------------------------------------------------------------
def zmap(zspec, X):
    X = np.atleast_2d(np.asarray(X, dtype=float))
    m = np.asarray(zspec["m"], dtype=float)
    w = np.asarray(zspec["w"], dtype=float)
    lg = np.asarray(zspec["log"], dtype=bool)
    Z = np.empty_like(X)
    if np.any(lg):
        with np.errstate(all="ignore"):
            Z[:, lg] = (np.log(np.maximum(X[:, lg], 1e-300)) - m[lg]) / w[lg]
    if np.any(~lg):
        Z[:, ~lg] = (X[:, ~lg] - m[~lg]) / w[~lg]
    return Z


def base_value(spec, z):
    """Noise-free value of the target at normalised point z (1-D)."""
    v = z - np.asarray(spec["c"], dtype=float)
    k = spec["kind"]
    if k == "quad":
        A = np.asarray(spec["A"], dtype=float)
        g = float(v @ A @ v)
    elif k == "l1":
        g = float(np.sum(np.abs(v)))
    elif k == "maxn":
        g = float(np.max(np.abs(v)))
    elif k == "plateau":
        g = float(np.floor(spec.get("steps", 4.0) * np.sum(np.abs(v))) / spec.get("steps", 4.0))
    elif k == "rosen":
        t = v + 1.0
        if t.size == 1:
            g = float((1 - t[0]) ** 2)
        else:
            g = float(np.sum(100.0 * (t[1:] - t[:-1] ** 2) ** 2 + (1 - t[:-1]) ** 2))
    elif k == "linear":
        g = float(np.dot(np.asarray(spec["a"], dtype=float), v))
    elif k == "const":
        g = 0.0
    else:
        raise ValueError(k)
    return spec.get("scale", 1.0) * g + spec.get("offset", 0.0)


def noise_sd(spec, z):
    n = spec.get("noise") or {}
    s = float(n.get("sigma", 0.0))
    h = float(n.get("hetero", 0.0))
    if h:
        s = s * (1.0 + h * abs(float(z[0]) - float(spec["c"][0])))
    if n.get("jitter"):
        # the reported SD is itself an estimate that varies from call to call (drawn from the seeded global stream)
        s = s * (1.0 + 0.25 * np.random.rand())
    return s


def _spell(y, how):
    if how == "float":
        return float(y)
    if how == "np":
        return np.float64(y)
    if how == "arr1":
        return np.array([y], dtype=float)
    if how == "arr11":
        return np.array([[y]], dtype=float)
    if how == "np32":
        return np.float32(y)  # single-precision models are common; the value observed is the rounded one
    if how == "u64":
        # an unsigned integer cost (sums over uint8 images, counts): np.sum of an unsigned array is an np.uint64 scalar
        return np.uint64(min(int(round(abs(float(y)))), 2**62))
    if how == "i32":
        return np.int32(max(-2**31 + 1, min(2**31 - 1, int(round(float(y))))))
    if how == "arr0":
        return np.array(float(y))  # 0-d array (what np.sum over a reshaped array or a framework tensor conversion returns)
    raise ValueError(how)


def make_target(spec):
    """Return f(x) for the spec. With noise mode 'specified' f returns the tuple (value, sd)."""
    zs = spec["z"]
    out = spec.get("out", "float")
    n = spec.get("noise") or {}
    mode = n.get("mode", "none")

    def f(x):
        z = zmap(zs, x)[0]
        y = base_value(spec, z)
        if mode == "none":
            return _spell(y, out)
        sd = noise_sd(spec, z)
        if not n.get("quiet"):
            y = y + sd * np.random.randn()
        if mode == "specified":
            return (_spell(y, out), _spell(sd, out) if out != "arr11" else float(sd))
        return _spell(y, out)

    return f


def true_value(spec, x):
    return base_value(spec, zmap(spec["z"], x)[0])


# ---------------------------------------------------------------------------------------------
# Non-box constraints: real-valued violation c(X) (feasible iff c <= 0), vectorised over rows,
# returning a 1-D array of length N (as in the BADS docstring example); `ret` = "real" | "bool".
# ---------------------------------------------------------------------------------------------
def violation(cspec, X):
    Z = zmap(cspec["z"], X)
    k = cspec["kind"]
    zc = np.asarray(cspec["zc"], dtype=float)
    V = Z - zc
    if k == "ball":
        c = np.sum(V**2, axis=1) - cspec["r"] ** 2
    elif k == "half":
        c = V @ np.asarray(cspec["a"], dtype=float) - cspec["b"]
    elif k == "band":
        c = np.abs(V @ np.asarray(cspec["a"], dtype=float)) - cspec["w"]
    elif k == "annulus":
        r2 = np.sum(V**2, axis=1)
        c = np.maximum(cspec["r1"] ** 2 - r2, r2 - cspec["r2"] ** 2)
    elif k == "union2":
        zc2 = np.asarray(cspec["zc2"], dtype=float)
        c = np.minimum(np.sum(V**2, axis=1) - cspec["r"] ** 2,
                       np.sum((Z - zc2) ** 2, axis=1) - cspec["r"] ** 2)
    elif k == "checker":
        # feasible cells of a checkerboard of period 2*p centred on zc (zc lies in a feasible cell)
        p = cspec["p"]
        c = -np.prod(np.cos(np.pi * V / (2 * p)), axis=1) - cspec.get("t", 0.0)
    elif k == "gridhalf":
        # mesh-adversarial region: exactly the nodes of the initial search mesh (step h in normalised units) that lie beyond
        # z_0 > t are infeasible, everything else is feasible. A point is judged before/after snapping very differently.
        h = cspec["h"]
        on_grid = np.all(np.abs(Z / h - np.round(Z / h)) < 0.02, axis=1)
        c = np.where(on_grid & (Z[:, 0] > cspec["t"]), 1.0, -1.0)
    else:
        raise ValueError(k)
    return np.asarray(c, dtype=float)


def make_constraint(cspec):
    ret = cspec.get("ret", "real")

    def cons(X):
        c = violation(cspec, X)
        if ret == "nanviol":
            # undefined (NaN) instead of a positive value where the constraint is violated, e.g. y - sqrt(x) for x < 0:
            # such a point does not satisfy the constraint
            return np.where(c > 0, np.nan, c)
        if ret == "barrier":
            return np.where(c > 0, np.inf, 0.0)  # barrier style: 0 where feasible, +inf where violated
        if ret.startswith("bool"):
            c = c > 0
        # "..._col": an (N, 1) column, the shape the validation message of BADS asks for ("returns a column vector")
        if ret.endswith("_list"):
            return [bool(t) if ret.startswith("bool") else float(t) for t in c]  # a list comprehension over the rows
        return c.reshape(-1, 1) if ret.endswith("_col") else c

    return cons
