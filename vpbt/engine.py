"""Sharded driver shared by every check: seeds, worker pool, collection of violations,
signature buckets, minimisation, known findings, evidence files and exit codes.

Exit protocol: 0 = held on everything explored (one KNOWN-FINDING line per listed finding that
was hit), 1 = at least one unlisted signature (one VIOLATION line each), 2 = harness error
(never prints VIOLATION)."""
from __future__ import annotations

import hashlib
import importlib
import json
import os
import signal
import sys
import time
import traceback
from collections import Counter
from dataclasses import dataclass, field

VERIF_DIR = os.path.dirname(os.path.dirname(os.path.abspath(__file__)))
# where evidence/ and replays/ are written: /verif itself, except for developer runs against scratch copies (mutants)
OUT_DIR = os.environ.get("VPBT_OUT", VERIF_DIR)
NPROC = int(os.environ.get("VPBT_NPROC", "16"))


def repo_dir():
    return os.environ.get("VPBT_REPO", "/repo")


# ----------------------------------------------------------------------------------------------
# Basic value types (plain dict/JSON so that they cross process boundaries)
# ----------------------------------------------------------------------------------------------
def viol(clause, detail, site="", exc_type=""):
    """A violation of one oracle clause. `clause` identifies the clause of the property's oracle,
    `site` narrows it (innermost pybads frame for exceptions, input class otherwise)."""
    return {"clause": clause, "site": site, "exc_type": exc_type, "detail": str(detail)[:600]}


def signature(v):
    return "|".join([v["clause"], v.get("exc_type", ""), v.get("site", "")])


def digest(obj):
    return hashlib.sha1(json.dumps(obj, sort_keys=True, default=str).encode()).hexdigest()[:16]


def jsonable(o):
    import numpy as np

    if isinstance(o, dict):
        return {str(k): jsonable(v) for k, v in o.items()}
    if isinstance(o, (list, tuple)):
        return [jsonable(v) for v in o]
    if isinstance(o, np.ndarray):
        return jsonable(o.tolist())
    if isinstance(o, (np.floating,)):
        return float(o)
    if isinstance(o, (np.integer,)):
        return int(o)
    if isinstance(o, (np.bool_,)):
        return bool(o)
    if isinstance(o, (set, frozenset)):
        return sorted(jsonable(v) for v in o)
    if isinstance(o, (str, int, float, bool)) or o is None:
        return o
    return repr(o)


class CaseTimeout(Exception):
    pass


@dataclass
class PartResult:
    part: str
    evaluations: int = 0
    oracle_evals: int = 0
    nontrivial: set = field(default_factory=set)
    labels: Counter = field(default_factory=Counter)
    found: dict = field(default_factory=dict)  # signature -> {"violation":…, "case":…, "count":n}
    samples: list = field(default_factory=list)
    inconclusive: int = 0
    exhaustive: bool = False
    notes: list = field(default_factory=list)

    def add_case(self, case, violations, labels=(), nontrivial=False, oracle_evals=0, sample=None,
                 max_samples=3):
        self.evaluations += 1
        self.oracle_evals += oracle_evals
        for lab in labels:
            self.labels[lab] += 1
        if nontrivial:
            self.nontrivial.add(digest(case))
            if len(self.samples) < max_samples:
                self.samples.append(jsonable(sample if sample is not None else case))
        for v in violations:
            s = signature(v)
            size = len(json.dumps(jsonable(case), default=str))
            cur = self.found.get(s)
            if cur is None:
                self.found[s] = {"violation": v, "case": jsonable(case), "count": 1, "size": size,
                                 "part": self.part}
            else:
                cur["count"] += 1
                if size < cur["size"]:
                    cur.update({"violation": v, "case": jsonable(case), "size": size})

    def to_wire(self):
        return {
            "part": self.part, "evaluations": self.evaluations, "oracle_evals": self.oracle_evals,
            "nontrivial": sorted(self.nontrivial), "labels": dict(self.labels), "found": self.found,
            "samples": self.samples, "inconclusive": self.inconclusive, "exhaustive": self.exhaustive,
            "notes": self.notes,
        }


def merge_wire(dst, w):
    dst["evaluations"] += w["evaluations"]
    dst["oracle_evals"] += w["oracle_evals"]
    dst["nontrivial"].update(w["nontrivial"])
    for k, v in w["labels"].items():
        dst["labels"][k] += v
    for s, f in w["found"].items():
        cur = dst["found"].get(s)
        if cur is None:
            dst["found"][s] = dict(f)
        else:
            cur["count"] += f["count"]
            if f["size"] < cur["size"]:
                cnt = cur["count"]
                cur.update(f)
                cur["count"] = cnt
    if len(dst["samples"]) < 5:
        dst["samples"].extend(w["samples"][: 5 - len(dst["samples"])])
    dst["inconclusive"] += w["inconclusive"]
    dst["notes"].extend(w["notes"])
    dst["exhaustive_parts"][w["part"]] = dst["exhaustive_parts"].get(w["part"], True) and w["exhaustive"]


# ----------------------------------------------------------------------------------------------
# Hypothesis helpers (used inside workers)
# ----------------------------------------------------------------------------------------------
def hyp_settings(n, shrink=False):
    from hypothesis import HealthCheck, Phase, settings

    phases = [Phase.generate] + ([Phase.shrink] if shrink else [])
    return settings(
        max_examples=max(1, int(n)), database=None, deadline=None, derandomize=False,
        report_multiple_bugs=False, phases=phases, print_blob=False,
        suppress_health_check=[HealthCheck.too_slow, HealthCheck.data_too_large,
                               HealthCheck.large_base_example],
    )


def hyp_sweep(res: PartResult, strategy, body, n, seed_value, case_timeout=None):
    """Run `body(case)` on n generated cases, collecting (never raising) violations.
    body returns dict(violations=[…], labels=[…], nontrivial=bool, oracle_evals=int, sample=…)."""
    from hypothesis import given, seed

    def run(case):
        try:
            with time_limit(case_timeout):
                out = body(case)
        except CaseTimeout:
            res.inconclusive += 1
            res.labels["inconclusive:timeout"] += 1
            return
        res.add_case(case, out.get("violations", []), out.get("labels", ()), out.get("nontrivial", False),
                     out.get("oracle_evals", 0), out.get("sample"))

    test = seed(seed_value)(hyp_settings(n)(given(strategy)(run)))
    test()
    return res


def hyp_minimise(strategy, predicate, n, seed_value, budget_s=240):
    """Find and shrink (Hypothesis shrinker) a case for which predicate(case) is True.
    Returns the minimal case or None."""
    from hypothesis import given, seed

    hits = []
    t0 = time.time()

    class _Hit(Exception):
        pass

    def run(case):
        if time.time() - t0 > budget_s and hits:
            return  # stop shrinking: keep the smallest seen so far
        if predicate(case):
            hits.append(case)
            raise _Hit()

    test = seed(seed_value)(hyp_settings(n, shrink=True)(given(strategy)(run)))
    try:
        test()
    except _Hit:
        pass
    except Exception:  # noqa: BLE001  (flaky reports etc.: keep what we have)
        pass
    if not hits:
        return None
    return min(hits, key=lambda c: len(json.dumps(jsonable(c), default=str)))


def run_fuzz_part(res, pid, entry, runs, seed_value, shard, max_len=4096, timeout=3000):
    """One libFuzzer process (atheris) on the check's Hypothesis test; empty corpus in a temp dir that is removed."""
    import shutil
    import subprocess
    import tempfile

    if not os.path.isdir(os.path.join(VERIF_DIR, ".deps", "atheris")):
        # normally done by MANIFEST.setup_cmd; offline install from the wheelhouse
        subprocess.run([sys.executable, "-m", "pip", "install", "--no-index", "--find-links", "/opt/veriftools/wheels", "--target",
                        os.path.join(VERIF_DIR, ".deps"), "atheris"], capture_output=True)
    timeout = int(os.environ.get("VPBT_FUZZ_TIMEOUT", timeout))  # (test aid)
    td = tempfile.mkdtemp(prefix="vpbt_fuzz_")
    try:
        corpus = os.path.join(td, "corpus")
        os.makedirs(corpus)
        env = dict(os.environ)
        cmd = [sys.executable, "-m", "vpbt.fuzz.target", pid, entry, td, corpus, f"-runs={int(runs)}", f"-seed={seed_value * 16 + shard + 1}",
               f"-max_len={max_len}", "-len_control=0", f"-artifact_prefix={td}/", "-print_final_stats=1"]
        timed_out = False
        try:
            p = subprocess.run(cmd, capture_output=True, text=True, cwd=VERIF_DIR, env=env, timeout=timeout)
            p_stderr, p_rc = p.stderr, p.returncode
        except subprocess.TimeoutExpired as te:
            # a wall-clock budget hit (loaded machine) is "inconclusive", never an error or a violation: keep what the campaign
            # had flushed so far
            timed_out = True
            p_stderr = te.stderr.decode("utf-8", "replace") if isinstance(te.stderr, bytes) else (te.stderr or "")
            p_rc = 0
            res.inconclusive += 1
            res.notes.append(f"fuzz campaign shard {shard} stopped at its wall-clock budget of {timeout}s (inconclusive)")
        st = {}
        if os.path.exists(os.path.join(td, "stats.json")):
            st = json.load(open(os.path.join(td, "stats.json")))
        execs = 0
        for line in p_stderr.splitlines():
            if line.startswith("stat::number_of_executed_units:"):
                execs = int(line.split(":")[-1])
        res.evaluations += execs or st.get("execs", 0)
        res.oracle_evals += st.get("execs", 0)
        for k, v in st.get("labels", {}).items():
            res.labels["fuzz:" + k] += v
        res.labels["fuzz:executions"] += execs or st.get("execs", 0)
        for i, d in enumerate(st.get("digests", [])):
            res.nontrivial.add(digest(("fuzz", shard, i, d)))
            if len(res.samples) < 2:
                res.samples.append(d)
        vf = os.path.join(td, "violation.json")
        if os.path.exists(vf):
            v = json.load(open(vf))
            sg = signature(v["violation"])
            res.found[sg] = {"violation": v["violation"], "case": v["case"], "count": 1, "size": len(json.dumps(v["case"], default=str)),
                             "part": res.part}
        elif p_rc != 0 and not timed_out:
            raise RuntimeError(f"fuzz target failed (exit {p_rc}): {p_stderr[-1500:]}")
    finally:
        shutil.rmtree(td, ignore_errors=True)
    return res


class time_limit:
    """Per-case wall-clock watchdog. A hit only ever marks the case inconclusive."""

    def __init__(self, seconds):
        self.seconds = seconds

    def __enter__(self):
        if self.seconds:
            def handler(signum, frame):
                raise CaseTimeout()
            self._old = signal.signal(signal.SIGALRM, handler)
            signal.setitimer(signal.ITIMER_REAL, self.seconds)

    def __exit__(self, *a):
        if self.seconds:
            signal.setitimer(signal.ITIMER_REAL, 0)
            signal.signal(signal.SIGALRM, self._old)
        return False


# ----------------------------------------------------------------------------------------------
# Worker side
# ----------------------------------------------------------------------------------------------
def _worker_init():
    # stdout of workers is discarded: BADS installs a stdout logging handler.
    sys.stdout = open(os.devnull, "w")
    rd = repo_dir()
    if sys.path[0] != rd:
        sys.path.insert(0, rd)
    import warnings

    warnings.filterwarnings("ignore")
    import numpy as np

    np.seterr(all="ignore")
    import pybads

    assert os.path.realpath(pybads.__file__).startswith(os.path.realpath(rd) + os.sep), (
        pybads.__file__, rd)
    import logging

    logging.disable(logging.CRITICAL)


def _run_task(task):
    """task = (check id, part name, tier, seed, shard, nshards). Returns wire dict or error."""
    pid, part, tier, seed_value, shard, nshards = task
    try:
        mod = importlib.import_module(f"vpbt.checks.{pid}")
        res = PartResult(part=part)
        mod.run_part(res, part, tier, seed_value, shard, nshards)
        return res.to_wire()
    except BaseException as e:  # noqa: BLE001
        return {"error": "".join(traceback.format_exception(type(e), e, e.__traceback__))[-4000:],
                "part": part, "shard": shard}


def _run_regress(args):
    pid, relpath = args
    try:
        mod = importlib.import_module(f"vpbt.checks.{pid}")
        data = json.load(open(os.path.join(VERIF_DIR, relpath)))
        out = mod.replay(data.get("part"), data.get("case", data))
        return {"path": relpath, "violations": out}
    except BaseException as e:  # noqa: BLE001
        return {"path": relpath, "error": "".join(traceback.format_exception(type(e), e, e.__traceback__))[-3000:]}


def _run_minimise(args):
    pid, part, tier, sig, case, seed_value = args
    try:
        mod = importlib.import_module(f"vpbt.checks.{pid}")
        return mod.minimise(part, tier, sig, case, seed_value)
    except BaseException as e:  # noqa: BLE001
        return {"error": "".join(traceback.format_exception(type(e), e, e.__traceback__))[-2000:], "case": case}


# ----------------------------------------------------------------------------------------------
# Parent side
# ----------------------------------------------------------------------------------------------
def load_known(pid):
    path = os.path.join(VERIF_DIR, "known_findings.json")
    if not os.path.exists(path):
        return []
    ents = json.load(open(path)).get("entries", [])
    return [e for e in ents if e.get("property") == pid and e.get("status") == "known"]


def match_known(known, v):
    for e in known:
        sg = e.get("signature", {})
        if sg.get("clause") != v["clause"]:
            continue
        if sg.get("site") not in (None, "", v.get("site", "")):
            continue
        if sg.get("exc_type") not in (None, "", v.get("exc_type", "")):
            continue
        return e
    return None


def setup_env():
    for k in ("OMP_NUM_THREADS", "OPENBLAS_NUM_THREADS", "MKL_NUM_THREADS", "NUMEXPR_NUM_THREADS",
              "VECLIB_MAXIMUM_THREADS"):
        os.environ[k] = "1"
    os.environ["PYTHONHASHSEED"] = "0"
    os.environ["PYBADS_VERIF"] = "1"
    os.environ["MPLBACKEND"] = "Agg"
    pp = os.environ.get("PYTHONPATH", "")
    parts = [repo_dir(), VERIF_DIR] + ([pp] if pp else [])
    os.environ["PYTHONPATH"] = os.pathsep.join(parts)


def run_check(pid, tier, seed_value, replay=None):
    t0 = time.time()
    setup_env()
    sys.path.insert(0, repo_dir())
    try:
        mod = importlib.import_module(f"vpbt.checks.{pid}")
    except Exception:  # noqa: BLE001
        print("HARNESS-ERROR cannot import check", pid)
        traceback.print_exc()
        return 2
    known = load_known(pid)

    if replay is not None:
        return do_replay(mod, pid, replay, known)

    import multiprocessing as mp
    from concurrent.futures import ProcessPoolExecutor

    plan = mod.plan(tier)  # list of (part name, nshards)
    if os.environ.get("VPBT_ONLY_PARTS"):
        # exploration aid (never used by a registered command): run a subset of the parts; floors will usually not be met
        plan = [(p_, n_) for p_, n_ in plan if p_ in os.environ["VPBT_ONLY_PARTS"].split(",")]
    tasks = []
    for part, nshards in plan:
        for sh in range(nshards):
            tasks.append((pid, part, tier, seed_value, sh, nshards))
    agg = {"evaluations": 0, "oracle_evals": 0, "nontrivial": set(), "labels": Counter(), "found": {},
           "samples": [], "inconclusive": 0, "notes": [], "exhaustive_parts": {}}
    per_part = {}
    errors = []
    ctx = mp.get_context("spawn")
    rdir = os.path.join(VERIF_DIR, "regress", pid)
    rfiles = sorted(os.path.join("regress", pid, f) for f in os.listdir(rdir) if f.endswith(".json")) \
        if os.path.isdir(rdir) else []
    regress_bad = []
    with ProcessPoolExecutor(max_workers=min(NPROC, max(1, len(tasks))), mp_context=ctx,
                             initializer=_worker_init) as ex:
        # replay tier: saved shrunk failures first (seconds)
        for r in ex.map(_run_regress, [(pid, f) for f in rfiles]):
            if "error" in r:
                errors.append({"error": r["error"], "part": "regress"})
                continue
            agg["labels"]["regress-replayed"] += 1
            for v in r["violations"]:
                if match_known(known, v) is None:
                    regress_bad.append((r["path"], v))
        for w in ex.map(_run_task, tasks):
            if "error" in w:
                errors.append(w)
                continue
            merge_wire(agg, w)
            pp = per_part.setdefault(w["part"], {"evaluations": 0, "nontrivial": 0, "violating_cases": 0})
            pp["evaluations"] += w["evaluations"]
            pp["nontrivial"] += len(w["nontrivial"])
            pp["violating_cases"] += sum(f["count"] for f in w["found"].values())
        if errors:
            print(f"HARNESS-ERROR property={pid}: {len(errors)} worker task(s) failed")
            print(errors[0]["error"])
            return 2

        # Population-level clauses decided on the merged records (e.g. C06's panel statistics)
        if hasattr(mod, "finalize"):
            for fv, fcase in mod.finalize(agg, tier, seed_value):
                sg = signature(fv)
                agg["found"].setdefault(sg, {"violation": fv, "case": jsonable(fcase), "count": 0, "size": 0, "part": "finalize"})
                agg["found"][sg]["count"] += 1

        # Triage: known vs new signatures
        known_hits = {}
        new = {}
        for s, f in agg["found"].items():
            e = match_known(known, f["violation"])
            if e is not None:
                k = e["what"]
                known_hits[k] = known_hits.get(k, 0) + f["count"]
            else:
                new[s] = f

        # Minimise new signatures (bounded), in parallel
        replays = []
        if new:
            items = sorted(new.items(), key=lambda kv: -kv[1]["count"])[:8]
            margs = [(pid, f["part"], tier, s, f["case"], seed_value) for s, f in items]
            mins = list(ex.map(_run_minimise, margs))
            os.makedirs(os.path.join(OUT_DIR, "replays"), exist_ok=True)
            for (s, f), m in zip(items, mins):
                case = f["case"]
                note = "unminimised"
                if isinstance(m, dict) and "error" not in m and m.get("case") is not None:
                    case, note = m["case"], m.get("note", "minimised")
                h = hashlib.sha1(s.encode()).hexdigest()[:10]
                path = os.path.join("replays", f"{pid}-{h}.json")
                json.dump({"property": pid, "part": f["part"], "signature": s, "violation": f["violation"],
                           "count": f["count"],
                           "case": case, "minimisation": note}, open(os.path.join(OUT_DIR, path), "w"),
                          indent=1, default=str)
                replays.append((s, path, f))

    # Non-vacuity floors
    floors = getattr(mod, "floors", lambda tier: {})(tier)
    floor_fail = [(k, agg["labels"].get(k, 0), v) for k, v in floors.items() if agg["labels"].get(k, 0) < v]

    wall = time.time() - t0
    ev = {
        "property_id": pid, "tier": tier, "seed": int(seed_value), "level": mod.LEVEL,
        "coverage": {
            "evaluations": int(agg["evaluations"]),
            "distinct_nontrivial": int(len(agg["nontrivial"])),
            "rule": mod.RULE,
            "samples": agg["samples"][:5] or ["(no non-trivial case this run)"],
            "oracle_evaluations": int(agg["oracle_evals"]),
            "classes": dict(sorted(agg["labels"].items())),
            "per_part": per_part,
            "exhaustive": bool(agg["exhaustive_parts"]) and all(agg["exhaustive_parts"].values()),
            "exhaustive_parts": sorted(k for k, v in agg["exhaustive_parts"].items() if v),
            "known_hits": known_hits,
            "new_signatures": {s: {"count": f["count"], "detail": f["violation"]["detail"][:300]} for s, f in
                               (new.items() if new else [])},
            "inconclusive_cases": int(agg["inconclusive"]),
            "regression_cases_replayed": len(rfiles),
            "notes": agg["notes"][:20],
            "summary": agg.get("summary", {}),
        },
        "assumptions": list(mod.ASSUMPTIONS),
        "wall_s": round(wall, 2),
        "violations": len(new) + len(regress_bad),
    }
    os.makedirs(os.path.join(OUT_DIR, "evidence"), exist_ok=True)
    json.dump(ev, open(os.path.join(OUT_DIR, "evidence", f"{pid}.json"), "w"), indent=1, default=str)

    print(f"[{pid}] tier={tier} seed={seed_value} cases={agg['evaluations']} "
          f"nontrivial={len(agg['nontrivial'])} oracle_evals={agg['oracle_evals']} "
          f"inconclusive={agg['inconclusive']} wall={wall:.1f}s")
    for k, n in sorted(known_hits.items()):
        print(f"KNOWN-FINDING: property={pid} {k} (hit {n}x)")
    # listed known findings are always announced, hit or not, so the line is stable across seeds
    for e in known:
        if e["what"] not in known_hits:
            print(f"KNOWN-FINDING: property={pid} {e['what']} (not hit in this run)")
    for path, v in regress_bad:
        print(f"VIOLATION property={pid} replay={path}")
        print(f"  signature: {signature(v)}  (saved regression case fails again)")
        print(f"  detail: {v['detail'][:400]}")
    if regress_bad and not new:
        return 1
    if new:
        for s, path, f in replays:
            print(f"VIOLATION property={pid} replay={path}")
            print(f"  signature: {s}  cases: {f['count']}")
            print(f"  detail: {f['violation']['detail'][:400]}")
        return 1
    if floor_fail:
        print(f"HARNESS-ERROR property={pid}: generator below non-vacuity floor: {floor_fail}")
        return 2
    if agg["evaluations"] == 0:
        print(f"HARNESS-ERROR property={pid}: no case executed")
        return 2
    return 0


def do_replay(mod, pid, path, known):
    _worker_init_replay()
    p = path if os.path.isabs(path) else os.path.join(VERIF_DIR, path)
    data = json.load(open(p))
    case = data.get("case", data)
    part = data.get("part")
    out = mod.replay(part, case)
    bad = 0
    for v in out:
        e = match_known(known, v)
        if e is not None:
            print(f"KNOWN-FINDING: property={pid} {e['what']}")
        else:
            bad += 1
            print(f"VIOLATION property={pid} replay={path}")
            print(f"  signature: {signature(v)}")
            print(f"  detail: {v['detail']}")
    if not out:
        print(f"[{pid}] replay {path}: no violation")
    return 1 if bad else 0


def _worker_init_replay():
    out = sys.stdout
    _worker_init()
    sys.stdout = out
