"""Fresh-interpreter runner for C07: reads a job (JSON) on stdin, executes the optional process history and the
scenario (once or twice), prints one JSON document with everything observable, floats as hex."""
from __future__ import annotations

import json
import logging
import os
import sys


def main():
    job = json.loads(sys.stdin.read())
    real_out = sys.stdout
    sys.stdout = open(os.devnull, "w")
    sys.path.insert(0, os.environ.get("VPBT_REPO", "/repo"))
    import warnings

    warnings.filterwarnings("ignore")
    import numpy as np

    from vpbt import harness

    def hx(a):
        return [float(v).hex() for v in np.asarray(a, dtype=float).ravel()]

    def observe(tr):
        out = dict(calls=[[hx(c["x"]), None if c["y"] is None else float(c["y"]).hex(), None if c["sd"] is None else float(c["sd"]).hex()]
                          for c in tr.calls],
                   nsearch=sum(1 for s in tr.steps if s["kind"] == "search"), npoll=sum(1 for s in tr.steps if s["kind"] == "poll"))
        e = tr.ctor_exc or tr.run_exc
        if e is not None:
            out["exception"] = [("ctor" if tr.ctor_exc else "run"), e["type"], e["site"]]
        if tr.bads is not None and hasattr(tr.bads, "x0"):
            out["x0"] = hx(tr.bads.x0)
        r = tr.result
        if r is not None:
            out["result"] = dict(x=hx(r["x"]), fval=float(r["fval"]).hex(), fsd=float(np.asarray(r["fsd"]).ravel()[0]).hex(),
                                 func_count=int(r["func_count"]), message=str(r["message"]), iterations=int(r["iterations"]),
                                 mesh_size=float(r["mesh_size"]).hex(),
                                 yval_vec=None if r["yval_vec"] is None else hx(r["yval_vec"]))
        return out

    def do_op(op):
        kind = op[0]
        if kind == "rng":
            _, api, k = op
            if api == "rand":
                np.random.rand(k)
            elif api == "randn":
                np.random.randn(k)
            elif api == "randint":
                np.random.randint(0, 100, size=k)
            elif api == "permutation":
                np.random.permutation(max(k, 1))
            elif api == "seed":
                np.random.seed(k)
            elif api == "uniform":
                np.random.uniform(-1, 1, size=k)
        elif kind == "run_foreign":
            harness.run(op[1])
        elif kind == "construct_foreign":
            import pybads.bads.bads as BB

            tr = harness.Trace()
            fun, kw = harness.build(op[1], tr)
            try:
                BB.BADS(fun, **kw)
            except Exception:  # noqa: BLE001
                pass
        elif kind == "seterr":
            np.seterr(all=op[1])
        elif kind == "printoptions":
            np.set_printoptions(**op[1])
        elif kind == "logging":
            logging.getLogger().setLevel(op[1])
            logging.getLogger("BADS").setLevel(op[1])

    scn = job["scn"]
    hist = job.get("history") or {"before": [], "between": []}
    for op in hist["before"]:
        do_op(op)
    outs = []
    for rep in range(job.get("repeats", 1)):
        between = hist["between"] if rep == 0 else []

        def pre(tr, between=between):
            for op in between:
                do_op(op)

        tr = harness.run(scn, pre_optimize=pre)
        outs.append(observe(tr))
    real_out.write(json.dumps(dict(runs=outs, hashseed=os.environ.get("PYTHONHASHSEED"))))
    real_out.flush()


if __name__ == "__main__":
    main()
