"""Coverage-guided fuzz target (atheris / libFuzzer) driving a check's Hypothesis test through fuzz_one_input.

usage: python -m vpbt.fuzz.target <Cxx> <entry> <outdir> [libFuzzer flags…]
The semantic oracle of the check runs inside the target; the first violation whose signature is not a listed known
finding is written to <outdir>/violation.json and raised (libFuzzer then stops and saves the input). Counters are
flushed to <outdir>/stats.json every 200 executions (atexit does not run under atheris)."""
import importlib
import json
import os
import sys

HERE = os.path.dirname(os.path.dirname(os.path.dirname(os.path.abspath(__file__))))
sys.path.insert(0, os.path.join(HERE, ".deps"))
sys.path.insert(0, HERE)
sys.path.insert(0, os.environ.get("VPBT_REPO", "/repo"))


def main():
    pid, entry, outdir = sys.argv[1], sys.argv[2], sys.argv[3]
    flags = sys.argv[4:]
    os.makedirs(outdir, exist_ok=True)
    import atheris

    import warnings

    warnings.filterwarnings("ignore")
    with atheris.instrument_imports(include=["pybads"]):
        import pybads  # noqa: F401
        import pybads.bads.bads  # noqa: F401
        import pybads.function_logger.function_logger  # noqa: F401
        import pybads.function_logger.constraints_check  # noqa: F401
        import pybads.variable_transformer.variables_transformer  # noqa: F401
        import pybads.search.search_hedge  # noqa: F401
        import pybads.search.es_search  # noqa: F401
        import pybads.bads.options  # noqa: F401
    import logging

    logging.disable(logging.CRITICAL)
    import numpy as np

    np.seterr(all="ignore")
    from hypothesis import HealthCheck, given, settings

    from vpbt import engine

    mod = importlib.import_module(f"vpbt.checks.{pid}")
    strategy, body = mod.fuzz_entry(entry)
    known = engine.load_known(pid)
    stats = {"execs": 0, "nontrivial": 0, "labels": {}, "digests": []}
    seen = set()

    @settings(database=None, deadline=None, suppress_health_check=list(HealthCheck))
    @given(strategy)
    def test(case):
        out = body(case)
        stats["execs"] += 1
        for lab in out.get("labels", ()):
            stats["labels"][lab] = stats["labels"].get(lab, 0) + 1
        if out.get("nontrivial"):
            d = engine.digest(case)
            if d not in seen:
                seen.add(d)
                stats["nontrivial"] += 1
                if len(stats["digests"]) < 3:
                    stats["digests"].append(engine.jsonable(out.get("sample", case)))
        if stats["execs"] % 25 == 0:
            json.dump(stats, open(os.path.join(outdir, "stats.json"), "w"), default=str)
        for v in out.get("violations", []):
            if engine.match_known(known, v) is None:
                json.dump({"violation": v, "case": engine.jsonable(case)}, open(os.path.join(outdir, "violation.json"), "w"), default=str)
                json.dump(stats, open(os.path.join(outdir, "stats.json"), "w"), default=str)
                raise AssertionError(engine.signature(v))

    atheris.Setup([sys.argv[0]] + flags, test.hypothesis.fuzz_one_input)
    atheris.Fuzz()


if __name__ == "__main__":
    main()
