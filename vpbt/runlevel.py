"""Shared plumbing for run-level checks (one generated scenario = one instrumented BADS run)."""
from __future__ import annotations

import json

from . import engine, harness, scenario


def shard_count(n_total, shard, nshards):
    base, rem = divmod(int(n_total), int(nshards))
    return base + (1 if shard < rem else 0)


def sweep(res, prof, n_total, seed_value, shard, nshards, body, case_timeout=600, strategy=None):
    n = shard_count(n_total, shard, nshards)
    if n <= 0:
        return res
    strat = strategy if strategy is not None else scenario.scenario(prof)
    return engine.hyp_sweep(res, strat, body, n, seed_value * 1000 + shard, case_timeout=case_timeout)


N_ADV = {"quick": 96, "thorough": 2000}


def adv_sweep(res, prof, tier, seed_value, shard, nshards, body, exclude=(), n=None):
    """The 'advopts' part shared by several checks: scenarios of `prof` with 1-3 advanced options (scenario.ADV_OPTS minus
    `exclude`) set to non-default values; same body and oracle as the check's natural runs."""
    pool = tuple(o for o in scenario.ADV_OPTS if o[0] not in exclude)
    return sweep(res, None, n or N_ADV[tier], seed_value + 4242, shard, nshards, body,
                 strategy=scenario.with_adv_opts(prof, pool=pool))


def field_minimise(case, sig, body, max_runs=12, simplifier=scenario.simplifications):
    """Greedy field-level minimisation (ddmin over scenario fields): try each simplification, keep it
    if the same signature still occurs. Bounded by max_runs re-executions."""
    runs = 0
    cur = case
    changed = True
    applied = []
    while changed and runs < max_runs:
        changed = False
        for desc, cand in simplifier(cur):
            if runs >= max_runs:
                break
            runs += 1
            try:
                out = body(cand)
            except Exception:  # noqa: BLE001
                continue
            if any(engine.signature(v) == sig for v in out.get("violations", [])):
                cur = cand
                applied.append(desc)
                changed = True
                break
    return {"case": engine.jsonable(cur), "note": f"field-ddmin: {runs} re-executions; applied: {applied}"}


def replay_body(body, case):
    out = body(case)
    return out.get("violations", [])


def small(scn):
    """Compact rendering of a scenario for evidence samples."""
    return {
        "D": scn["D"], "coords": [{k: c[k] for k in ("cls", "lb", "plb", "pub", "ub")} for c in scn["coords"]],
        "x0": scn["x0"], "target": {k: scn["target"][k] for k in ("kind", "c", "scale") if k in scn["target"]},
        "noise": scn["target"]["noise"], "cons": None if not scn.get("cons") else {
            k: scn["cons"][k] for k in ("kind", "x0cls", "ret")}, "options": scn["options"],
    }


def exc_violation(tr, clause_prefix="crash"):
    """Turn an unexpected exception of a run into a violation record (used by C09 and as a guard elsewhere)."""
    e = tr.run_exc or tr.ctor_exc
    where = "optimize" if tr.run_exc else "constructor"
    return engine.viol(f"{clause_prefix}:{where}", f"{e['type']}: {e['msg']} @ {e['site']}\n{e['tb'][-500:]}",
                       site=e["site"], exc_type=e["type"])
