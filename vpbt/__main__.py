"""python -m vpbt <Cxx> --tier quick|thorough [--replay FILE]   (cwd = /verif)"""
import argparse
import os
import sys


def main():
    ap = argparse.ArgumentParser()
    ap.add_argument("pid")
    ap.add_argument("--tier", default=os.environ.get("VERIF_TIER", "quick"), choices=["quick", "thorough"])
    ap.add_argument("--replay", default=None)
    a = ap.parse_args()
    try:
        seed = int(os.environ.get("VERIF_SEED", "1"))
    except ValueError:
        seed = 1
    from vpbt import engine

    try:
        rc = engine.run_check(a.pid, a.tier, seed, a.replay)
    except SystemExit:
        raise
    except BaseException:  # noqa: BLE001
        import traceback

        print(f"HARNESS-ERROR property={a.pid}: driver crashed")
        traceback.print_exc()
        rc = 2
    sys.stdout.flush()
    sys.exit(rc)


if __name__ == "__main__":
    main()
