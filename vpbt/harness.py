"""Instrumented execution of one scenario against the real pybads code (DESIGN.md §4).

All instrumentation is installed from outside by rebinding module attributes and is removed again
after the case; the only repository hook used is the guarded loop probe."""
from __future__ import annotations

import contextlib
import copy
import os
import traceback

import numpy as np

from . import targets as T


class Abort(Exception):
    """Raised by the loop probe to stop a run whose controller stopped making progress."""


class InjectedFault(Exception):
    pass


class Trace:
    def __init__(self):
        self.calls = []       # dict(i, x, y, sd, ret, phase, step)
        self.cons_calls = []  # dict(X, C, n_calls_before)
        self.events = []      # dict(type=…)
        self.steps = []       # dict(kind, k, entry=…, exit=…, call_lo, call_hi)
        self.probes = []
        self.ctor_exc = None
        self.run_exc = None
        self.result = None
        self.bads = None
        self.phase = ("pre", 0)
        self.fit_count = 0
        self.aborted = None
        self.user_object = None


def exc_info(e):
    tb = traceback.extract_tb(e.__traceback__)
    site = ""
    for fr in tb:
        fn = fr.filename.replace("\\", "/")
        if "/pybads/" in fn and "/testing/" not in fn:
            site = f"{os.path.basename(fn)}:{fr.name}"
    return dict(type=type(e).__name__, msg=str(e)[:300], site=site,
                tb="".join(traceback.format_exception(type(e), e, e.__traceback__))[-1500:], exc=e)


# ---------------------------------------------------------------------------------------------
# Problem construction from a scenario
# ---------------------------------------------------------------------------------------------
def spell(vec, how):
    if vec is None:
        return None
    a = np.array(vec, dtype=float)
    if how == "a1":
        return a
    if how == "a2":
        return a.reshape(1, -1)
    if how == "list":
        return [float(v) for v in a]
    if how == "tuple":
        return tuple(float(v) for v in a)
    if how == "scalar":
        assert a.size == 1
        return float(a[0])
    if how == "int":
        assert np.all(a == np.round(a))
        return np.array([int(v) for v in a])
    raise ValueError(how)


def problem_arrays(scn):
    co = scn["coords"]
    lb = [c["lb"] for c in co]
    ub = [c["ub"] for c in co]
    if all(np.isinf(v) for v in lb) and scn.get("hard_none"):
        lb = ub = None
    plb = pub = None
    if not scn.get("plaus_omitted"):
        plb = [c["plb"] for c in co]
        pub = [c["pub"] for c in co]
    return scn.get("x0"), lb, ub, plb, pub


def lcb_schedule(k):
    """User-supplied annealing schedule for the LCB acquisition (the documented one scaled by k): sqrt_beta(t, D)."""
    def sched(t, d):
        return k * np.sqrt(0.2 * 2 * np.log(d * t**2 * np.pi**2 / (6 * 0.1)))
    sched.k = k
    return sched


def materialise_options(opts):
    """JSON scenario options -> options dict for BADS (callables are described as {"__callable__": name, ...})."""
    out = copy.deepcopy(opts)
    sd = out.pop("__seed_dtype__", None)
    if sd and out.get("random_seed") is not None:
        out["random_seed"] = {"np.int64": np.int64, "np.int32": np.int32}[sd](out["random_seed"])  # NumPy integer seeds are integers too
    for key, val in list(out.items()):
        if isinstance(val, dict) and val.get("__callable__") == "lcb_schedule":
            out[key] = ("acq_LCB", lcb_schedule(val["k"]))
        elif isinstance(val, dict) and val.get("__callable__") == "lcb_const":
            out[key] = ("acq_LCB", float(val["v"]))  # a fixed LCB parameter (acq_fcn_lcb: "sqrt_beta: float")
    return out


def build(scn, trace, fault=None, script=None):
    """Return (fun, kwargs) for BADS(fun, **kwargs). `fault` = {call index (1-based): action};
    `script` = callable(trace, x, k) -> value overriding the target (history-dependent targets)."""
    sp = scn.get("spelling", "a1")
    x0, lb, ub, plb, pub = problem_arrays(scn)
    inner = T.make_target(scn["target"])
    mode = scn["target"]["noise"]["mode"]

    def fun(x):
        k = len(trace.calls) + 1
        rec = dict(i=k, x=np.array(x, dtype=float).copy().ravel(), phase=trace.phase[0], step=trace.phase[1],
                   y=None, sd=None, ret=None, fault=None)
        trace.calls.append(rec)
        if fault and k in fault:
            act = fault[k]
            rec["fault"] = act
            if act[0] == "raise":
                if len(act) > 2 and act[2] == "noargs":
                    raise act[1]()  # exceptions without a message (bare assert, `raise MyError`) are exceptions too
                if len(act) > 2 and act[2] == "twoargs":
                    raise act[1](k, "injected fault")  # structured exceptions: cannot be re-built from a single string
                raise act[1](f"injected fault at call {k}")
            rec["ret"] = act[1]
            return act[1]
        if script is not None:
            ret = script(trace, rec["x"], k)
        else:
            ret = inner(x)
        rec["ret"] = ret
        if mode == "specified" and isinstance(ret, tuple):
            rec["y"] = float(np.asarray(ret[0]).ravel()[0])
            rec["sd"] = float(np.asarray(ret[1]).ravel()[0])
        else:
            rec["y"] = float(np.asarray(ret).ravel()[0])
        if scn["target"].get("mutates") and isinstance(x, np.ndarray) and x.flags.writeable:
            x[...] = x * 0.0 + 12345.678  # in-place work on the argument
        return ret

    # the target may be handed to BADS as a plain function, a callable object or a bound method; the object counts the
    # calls it receives itself, so a library that silently calls a *copy* of the user's object is visible
    how = scn["target"].get("callable", "function")
    if how in ("object", "method"):
        class UserModel:
            def __init__(self, f):
                import threading

                self.f = f
                self.received = 0
                if scn.get("np_seed", 0) % 2 == 0:
                    # models own locks, sessions, open files: they cannot be deep-copied or pickled (every other case, so that
                    # a library that silently works on a deep copy of a copyable object is still seen through `received`)
                    self._lock = threading.Lock()

            def __call__(self, x):
                self.received += 1
                return self.f(x)

            def loss(self, x):
                self.received += 1
                return self.f(x)

        model = UserModel(fun)
        trace.user_object = model
        fun = model if how == "object" else model.loss

    cons = None
    if scn.get("cons") is not None:
        cinner = T.make_constraint(scn["cons"])

        def cons(X):
            Xc = np.array(X, dtype=float, copy=True)
            C = cinner(X)
            trace.cons_calls.append(dict(X=np.atleast_2d(Xc), C=np.array(C, copy=True), ncalls=len(trace.calls),
                                         phase=trace.phase[0]))
            if scn["cons"].get("mutates") and isinstance(X, np.ndarray) and X.flags.writeable:
                X[...] = 12345.678  # a constraint function that works in place on the matrix it is handed
            return C

    kw = dict(x0=spell(x0, sp), lower_bounds=spell(lb, sp), upper_bounds=spell(ub, sp),
              plausible_lower_bounds=spell(plb, sp), plausible_upper_bounds=spell(pub, sp),
              non_box_cons=cons, options=materialise_options(scn["options"]))
    return fun, kw


# ---------------------------------------------------------------------------------------------
# Seams
# ---------------------------------------------------------------------------------------------
@contextlib.contextmanager
def patched(pairs):
    """pairs: list of (object, attribute name, new value). Missing seam -> AttributeError (harness error)."""
    saved = []
    try:
        for obj, name, new in pairs:
            old = getattr(obj, name)  # raises if the seam no longer exists
            saved.append((obj, name, old))
            setattr(obj, name, new)
        yield
    finally:
        for obj, name, old in reversed(saved):
            setattr(obj, name, old)


def _snap(b):
    fl = b.function_logger
    return dict(
        k=float(b.mesh_size_integer), mesh=float(b.mesh_size), os_mesh=float(b.optim_state["mesh_size"]), fval=_f(getattr(b, "fval", np.nan)),
        yval=_f(getattr(b, "yval", np.nan)), fsd=_f(getattr(b, "fsd", np.nan)),
        u=np.array(b.u, dtype=float).ravel().copy(), func_count=int(fl.func_count),
        search_count=_f(b.optim_state.get("search_count", -1)), iter=int(b.optim_state.get("iter", -1)),
        ncalls=None, uhl=int(b.optim_state.get("uncertainty_handling_level", 0)),
        search_mesh=float(b.optim_state.get("search_mesh_size", np.nan)),
        suff=_f(getattr(b, "sufficient_improvement", np.nan)),
        u_best=np.array(getattr(b, "u_best", b.u), dtype=float).ravel().copy(),
    )


def _f(v):
    try:
        return float(np.asarray(v).ravel()[0])
    except Exception:  # noqa: BLE001
        return float("nan")


def run(scn, want=(), fault=None, script=None, fit_faults=None, probe_limit=True, search_script=None,
        pre_optimize=None, es_thin=None, fit_closing=None):
    """Execute the scenario. `want` ⊆ {"filter","poll","gp","acq","es","improve","logger"} selects the
    (costlier) seams. Returns a Trace."""
    import pybads.bads.bads as BB
    import pybads.search.es_search as ES
    import pybads.search.search_hedge as SH
    from gpyreg.gaussian_process import GP

    tr = Trace()
    want = set(want)
    fun, kw = build(scn, tr, fault=fault, script=script)
    if scn["options"].get("random_seed") is None:
        np.random.seed(scn.get("np_seed", 0))

    pairs = []
    BADS = BB.BADS

    # --- step wrappers (phase labelling + controller snapshots) ---
    def wrap_step(kind, orig):
        def w(self, *a, **k):
            idx = sum(1 for s in tr.steps if s["kind"] == kind)
            st = dict(kind=kind, k=idx, entry=_snap(self) if kind != "init" else None, exit=None,
                      call_lo=len(tr.calls), call_hi=None, exc=None, events_lo=len(tr.events))
            tr.steps.append(st)
            prev = tr.phase
            tr.phase = (kind, idx)
            try:
                return orig(self, *a, **k)
            except BaseException as e:
                st["exc"] = type(e).__name__
                raise
            finally:
                st["call_hi"] = len(tr.calls)
                try:
                    st["exit"] = _snap(self)
                except Exception:  # noqa: BLE001
                    st["exit"] = None
                tr.phase = ("loop", 0) if kind != "init" else ("loop", 0)
        return w

    pairs += [(BADS, "_init_mesh_", wrap_step("init", BADS._init_mesh_)),
              (BADS, "_search_step_", wrap_step("search", BADS._search_step_)),
              (BADS, "_poll_step_", wrap_step("poll", BADS._poll_step_))]

    # --- loop probe ---
    limit = {"n": None}

    def probe(self, loop_iter, poll_iteration, do_poll_step, is_finished, msg):
        tr.probes.append(dict(loop_iter=int(loop_iter), poll_iter=int(poll_iteration), do_poll=bool(do_poll_step),
                              finished=bool(is_finished), msg=str(msg), k=float(self.mesh_size_integer),
                              mesh=float(self.mesh_size), os_mesh=float(self.optim_state["mesh_size"]), ncalls=len(tr.calls),
                              func_count=int(self.function_logger.func_count),
                              search_count=_f(self.optim_state["search_count"]),
                              search_mesh=float(self.optim_state["search_mesh_size"]),
                              nsteps=len(tr.steps), fval=_f(self.fval), yval=_f(self.yval),
                              u=np.array(self.u, dtype=float).ravel().copy(),
                              u_best=np.array(self.u_best, dtype=float).ravel().copy()))
        if probe_limit and not is_finished:
            if limit["n"] is None:
                snt = float(self.options["search_n_try"])
                # A round of search_n_try searches may be empty-handed after an early success (poll skipped), and the
                # following round may be empty too before its closing poll: at most 2*snt - 2 idle iterations in a row.
                limit["w"] = max(2, 2 * int(snt))
                limit["n"] = int((snt + 1) * (float(self.options["max_iter"]) + float(scn["options"].get(
                    "max_fun_evals", self.options["max_fun_evals"])) + 12) + 10)
            w = limit["w"]
            if len(tr.probes) > w:
                a, b = tr.probes[-w - 1], tr.probes[-1]
                if a["ncalls"] == b["ncalls"] and not any(p["do_poll"] for p in tr.probes[-w:]):
                    tr.aborted = f"no target call and no poll step in {w} consecutive loop iterations"
                    raise Abort(tr.aborted)
            if loop_iter > limit["n"]:
                tr.aborted = f"loop_iter {loop_iter} exceeds bound {limit['n']}"
                raise Abort(tr.aborted)

    pairs.append((BB, "_verif_loop_probe", probe))

    # --- candidate filter ---
    if "filter" in want:
        def wrap_filter(orig, where):
            def w(U, lb, ub, tol_mesh, function_logger, proj=True, non_box_cons=None):
                Uin = np.array(U, dtype=float, copy=True)
                n0 = int(function_logger.X_max_idx)
                logged = function_logger.X[: n0 + 1].copy()
                out = orig(U, lb, ub, tol_mesh, function_logger, proj, non_box_cons)
                tr.events.append(dict(type="filter", where=where, Uin=Uin, lb=np.array(lb, dtype=float).copy(),
                                      ub=np.array(ub, dtype=float).copy(), tol=float(tol_mesh), proj=bool(proj),
                                      out=np.array(out, dtype=float, copy=True), logged=logged,
                                      has_cons=non_box_cons is not None, phase=tr.phase, ncalls=len(tr.calls)))
                return out
            return w
        pairs += [(BB, "contraints_check", wrap_filter(BB.contraints_check, "bads")),
                  (ES, "contraints_check", wrap_filter(ES.contraints_check, "es"))]

    # --- scripted thinning of the ES populations: after the real filter, keep only the first k survivors of the
    # n-th ES filter call (k cycled from `es_thin`; None = keep all). A subset of the survivors is what a stricter
    # feasible region would leave, so every downstream obligation is unchanged.
    if es_thin:
        base = next((new for (m, n, new) in reversed(pairs) if m is ES and n == "contraints_check"), ES.contraints_check)
        thin_n = {"n": 0}

        def wthin(U, lb, ub, tol_mesh, function_logger, proj=True, non_box_cons=None):
            out = base(U, lb, ub, tol_mesh, function_logger, proj, non_box_cons)
            k = es_thin[thin_n["n"] % len(es_thin)]
            thin_n["n"] += 1
            return out if k is None else out[: int(k)]
        pairs.append((ES, "contraints_check", wthin))

    # --- poll basis ---
    if "poll" in want:
        def wpoll(dim_x, poll_scale, search_mesh_size, mesh_size, _o=BB.poll_mads_2n):
            B = _o(dim_x, poll_scale, search_mesh_size, mesh_size)
            tr.events.append(dict(type="poll_basis", B=np.array(B, copy=True), poll_scale=np.array(poll_scale, copy=True),
                                  search_mesh=float(search_mesh_size), mesh=float(mesh_size), phase=tr.phase,
                                  ncalls=len(tr.calls)))
            return B
        pairs.append((BB, "poll_mads_2n", wpoll))

    # --- GP fit / update seams ---
    if "gp" in want:
        def snap_gp(gp):
            return dict(X=np.array(gp.X, copy=True), y=np.array(gp.y, copy=True),
                        s2=None if gp.s2 is None else np.array(gp.s2, copy=True))

        def snap_log(fl):
            n = fl.X_max_idx + 1
            return dict(X=fl.X[:n].copy(), Y=fl.Y[:n].copy(), S=fl.S[:n].copy() if fl.noise_flag else None,
                        noise=bool(fl.noise_flag), he=bool(fl.he_noise_flag))

        def w_local(gp, current_point, function_logger, options, optim_state, iteration_history, refit_flag,
                    _o=BB.local_gp_fitting):
            metric = dict(len_scale=copy.deepcopy(gp.temporary_data["len_scale"]),
                          eff_radius=copy.deepcopy(gp.temporary_data["effective_radius"]))
            centre = np.array(current_point, dtype=float).ravel().copy()
            opts = dict(n_train_min=options["n_train_min"], n_train_max=options["n_train_max"],
                        buffer=options["buffer_ntrain"], gp_radius=options["gp_radius"])
            log = snap_log(function_logger)
            ncalls_before = len(tr.calls)
            ev0 = len(tr.events)
            before = snap_gp(gp)
            out = _o(gp, current_point, function_logger, options, optim_state, iteration_history, refit_flag)
            nfail = sum(1 for x in tr.events[ev0:] if x.get("type") in ("fit_error", "fit_fault"))
            tr.events.append(dict(type="local_fit", metric=metric, centre=centre, opts=opts, log=log, ncalls_at=ncalls_before, fit_failures=nfail, before=before, exit_flag=_f(out[1]),
                                  gp=snap_gp(out[0]), refit=bool(refit_flag), phase=tr.phase, lb=np.array(optim_state["lb"]),
                                  ub=np.array(optim_state["ub"])))
            return out

        def w_add(function_logger, gp, x_new, y_new, sd_new=None, options=None, _o=BB.add_and_update_gp):
            before = snap_gp(gp)
            # did the posterior update with the new point fail (singular covariance)? then the documented fallback is to keep
            # the previous posterior; observed on the instance, from outside
            failed = {"n": 0}
            inst_update = gp.update

            def upd(*a, **k):
                try:
                    return inst_update(*a, **k)
                except Exception:  # noqa: BLE001
                    failed["n"] += 1
                    raise
            gp.update = upd
            try:
                out = _o(function_logger, gp, x_new, y_new, sd_new, options)
            finally:
                try:
                    del gp.update
                except AttributeError:
                    pass
            tr.events.append(dict(type="gp_add", before=before, gp=snap_gp(out), update_failed=failed["n"], x=np.array(x_new, dtype=float).ravel().copy(),
                                  y=y_new, sd=sd_new, log=snap_log(function_logger), phase=tr.phase,
                                  he=bool(options["specify_target_noise"])))
            return out

        def w_init(hyp_dict, optim_state, function_logger, iteration_history, options, plb, pub, _o=BB.init_and_train_gp):
            out = _o(hyp_dict, optim_state, function_logger, iteration_history, options, plb, pub)
            tr.events.append(dict(type="gp_init", gp=snap_gp(out[0]), log=snap_log(function_logger), phase=tr.phase))
            return out

        pairs += [(BB, "local_gp_fitting", w_local), (BB, "add_and_update_gp", w_add), (BB, "init_and_train_gp", w_init)]

    # --- GP.fit fault injection (always counted) ---
    orig_fit = GP.fit

    def w_fit(self, *a, **k):
        i = tr.fit_count
        tr.fit_count += 1
        if fit_faults and i in fit_faults:
            tr.events.append(dict(type="fit_fault", i=i, phase=tr.phase))
            # a real failure happens in the factorisations, i.e. after fit() has stored the new data in the GP
            X, y, s2 = (list(a) + [None] * 3)[:3]
            X, y, s2 = k.get("X", X), k.get("y", y), k.get("s2", s2)
            X, y, s2 = self._convert_shapes(X, y, s2)
            if X is not None:
                self.X = X
            if y is not None:
                self.y = y
            if s2 is not None:
                self.s2 = s2
            raise np.linalg.LinAlgError(f"injected GP.fit failure #{i}")
        if fit_closing and i in fit_closing:
            # the failure happens in the *closing* step of fit(): the hyperparameter search succeeded, the final posterior
            # computation (self.update(hyp=...)) fails after gpyreg has already replaced the posteriors by an empty slot
            tr.events.append(dict(type="fit_fault", i=i, phase=tr.phase, where="closing"))
            inst_update = self.update
            state = {"armed": True}

            def upd(*ua, **uk):
                if state["armed"] and uk.get("hyp") is not None:
                    state["armed"] = False
                    self.posteriors = np.empty((1,), dtype=object)
                    raise np.linalg.LinAlgError(f"injected failure in the closing posterior update of GP.fit #{i}")
                return inst_update(*ua, **uk)
            self.update = upd
            try:
                return orig_fit(self, *a, **k)
            finally:
                try:
                    del self.update
                except AttributeError:
                    pass
        try:
            return orig_fit(self, *a, **k)
        except Exception as e:  # noqa: BLE001
            # a fit that fails on its own (numerically singular covariance): the retry may thin the training set
            tr.events.append(dict(type="fit_error", i=i, exc=type(e).__name__, phase=tr.phase))
            raise

    pairs.append((GP, "fit", w_fit))

    # --- acquisition ---
    if "acq" in want:
        def wrap_acq(orig, where):
            def w(xi, func_count, gp, sqrt_beta=None):
                out = orig(xi, func_count, gp, sqrt_beta)
                mu, s2 = gp.predict(xi)
                tr.events.append(dict(type="acq", where=where, n=int(np.shape(xi)[0]), D=int(np.shape(xi)[1]),
                                      func_count=int(func_count), z=np.array(out[0], copy=True),
                                      f_mu=np.array(out[1], copy=True), f_s=np.array(out[2], copy=True),
                                      mu=np.array(mu), s2=np.array(s2), xi=np.array(xi, copy=True) if "es" in want else None,
                                      phase=tr.phase, custom_beta=sqrt_beta is not None, ncalls=len(tr.calls)))
                return out
            return w
        pairs += [(BB, "acq_fcn_lcb", wrap_acq(BB.acq_fcn_lcb, "bads")), (ES, "acq_fcn_lcb", wrap_acq(ES.acq_fcn_lcb, "es"))]

    # --- ES search / hedge ---
    if "es" in want:
        def w_es_call(self, u, lb, ub, func_logger, gp, optim_state, sum_rule=True, non_box_cons=None,
                      _o=ES.ESSearch.__call__):
            lo = len(tr.events)
            out = _o(self, u, lb, ub, func_logger, gp, optim_state, sum_rule, non_box_cons)
            tr.events.append(dict(type="es_call", cls=type(self).__name__, lo=lo, us=np.array(out[0], copy=True),
                                  z=_f(out[1]), lb_search=np.array(optim_state["lb_search"]).copy(),
                                  ub_search=np.array(optim_state["ub_search"]).copy(), phase=tr.phase,
                                  lb=np.array(optim_state["lb"], dtype=float).ravel().copy(), ub=np.array(optim_state["ub"], dtype=float).ravel().copy(),
                                  search_mesh=float(optim_state["search_mesh_size"]),
                                  lamb=int(self.lamb), mu=int(self.mu)))
            return out

        def w_hedge_call(self, u, lb, ub, func_logger, gp, optim_state, _o=SH.ESSearchHedge.__call__):
            out = _o(self, u, lb, ub, func_logger, gp, optim_state)
            tr.events.append(dict(type="hedge", prob=np.array(self.prob, copy=True), chosen=np.array(self.chosen_hedge).ravel().copy(),
                                  g=np.array(self.g, copy=True), gamma=float(self.gamma), n_funs=int(self.n_funs),
                                  phase=tr.phase))
            return out
        pairs += [(ES.ESSearch, "__call__", w_es_call), (SH.ESSearchHedge, "__call__", w_hedge_call)]

    if search_script is not None:
        def w_hedge_scripted(self, u, lb, ub, func_logger, gp, optim_state, _o=SH.ESSearchHedge.__call__):
            r = search_script(tr, self, u, lb, ub, func_logger, gp, optim_state)
            if r is None:
                return _o(self, u, lb, ub, func_logger, gp, optim_state)
            # keep the hedge's own bookkeeping consistent
            self.count += 1
            self.prob = np.ones(self.n_funs) / self.n_funs
            self.chosen_hedge = np.array([0])
            self.phat = np.full(self.g.shape, np.inf)
            self.phat[0] = self.prob[0]
            self.chosen_search_fun = self.search_fcns[0]
            return r
        pairs.append((SH.ESSearchHedge, "__call__", w_hedge_scripted))

    # --- improvement evaluations ---
    if "improve" in want:
        def w_impr(self, f_base, f_new, s_base, s_new, q, _o=BADS._eval_improvement_):
            z = _o(self, f_base, f_new, s_base, s_new, q)
            if np.size(z) == 1:
                tr.events.append(dict(type="improve", z=_f(z), f_base=_f(f_base), f_new=_f(f_new), s_new=_f(s_new) if s_new is not None else None,
                                      phase=tr.phase, ncalls=len(tr.calls)))
            return z

        orig_predict = GP.predict

        def w_predict(self, x_star, *a, **k):
            out = orig_predict(self, x_star, *a, **k)
            if np.ndim(x_star) == 2 and np.shape(x_star)[0] == 1:
                tr.events.append(dict(type="predict1", x=np.array(x_star, dtype=float).ravel().copy(), mu=_f(out[0]), s2=_f(out[1]),
                                      phase=tr.phase, ncalls=len(tr.calls)))
            return out
        pairs.append((GP, "predict", w_predict))

        def w_upd(self, u_new, yval_new, fval_new, fsd_new, _o=BADS._update_incumbent_):
            tr.events.append(dict(type="incumbent", u=np.array(u_new, dtype=float).ravel().copy(), yval=_f(yval_new),
                                  fval=_f(fval_new), fsd=_f(fsd_new), phase=tr.phase, ncalls=len(tr.calls)))
            return _o(self, u_new, yval_new, fval_new, fsd_new)
        pairs += [(BADS, "_eval_improvement_", w_impr), (BADS, "_update_incumbent_", w_upd)]

    # --- logger seam ---
    if "logger" in want:
        from pybads.function_logger import FunctionLogger

        def w_logger(self, x, record_duplicate_data=True, _o=FunctionLogger.__call__):
            xin = np.array(x, dtype=float).ravel().copy()
            try:
                out = _o(self, x, record_duplicate_data)
            except BaseException:
                tr.events.append(dict(type="logger_call", u=xin, record=bool(record_duplicate_data), out=None,
                                      call=len(tr.calls), phase=tr.phase))
                raise
            tr.events.append(dict(type="logger_call", u=xin, record=bool(record_duplicate_data),
                                  out=(copy.deepcopy(out[0]), copy.deepcopy(out[1]), copy.deepcopy(out[2])),
                                  call=len(tr.calls), phase=tr.phase, Xn=int(self.Xn), func_count=int(self.func_count)))
            return out
        pairs.append((FunctionLogger, "__call__", w_logger))

    old_env = os.environ.get("PYBADS_VERIF")
    os.environ["PYBADS_VERIF"] = "1"
    errstate = np.geterr()
    try:
        with patched(pairs):
            try:
                tr.phase = ("ctor", 0)
                b = BADS(fun, **kw)
                tr.bads = b
            except Abort:
                raise
            except Exception as e:  # noqa: BLE001
                tr.ctor_exc = exc_info(e)
                return tr
            tr.ctor_calls = len(tr.calls)
            if pre_optimize is not None:
                pre_optimize(tr)
            try:
                tr.phase = ("loop", 0)
                tr.result = b.optimize()
            except Abort as e:
                tr.run_exc = dict(type="Abort", msg=str(e), site="probe", tb="", exc=e)
            except Exception as e:  # noqa: BLE001
                tr.run_exc = exc_info(e)
    finally:
        np.seterr(**errstate)
        if old_env is None:
            os.environ.pop("PYBADS_VERIF", None)
        else:
            os.environ["PYBADS_VERIF"] = old_env
    return tr


# ---------------------------------------------------------------------------------------------
# Helpers shared by oracles
# ---------------------------------------------------------------------------------------------
def hard_bounds(scn):
    lb = np.array([c["lb"] for c in scn["coords"]], dtype=float)
    ub = np.array([c["ub"] for c in scn["coords"]], dtype=float)
    return lb, ub


def widths(scn):
    """Per-coordinate width used for tolerances: ub - lb, or the plausible span for unbounded coordinates."""
    w = []
    for c in scn["coords"]:
        if np.isfinite(c["lb"]) and np.isfinite(c["ub"]):
            w.append(c["ub"] - c["lb"])
        else:
            w.append(c["pub"] - c["plb"])
    return np.array(w, dtype=float)


def run_labels(scn, tr):
    """Class labels describing what kind of case this was (for the evidence histogram)."""
    labs = [f"D={scn['D']}", f"noise={scn['target']['noise']['mode']}", f"target={scn['target']['kind']}",
            "cons=" + (scn["cons"]["kind"] if scn.get("cons") else "none")]
    labs += sorted({f"coord={c['cls']}" for c in scn["coords"]})
    if scn.get("x0") is None:
        labs.append("x0=none")
    else:
        labs += sorted({f"x0={c}" for c in scn["x0cls"]})
    labs += sorted({f"min={c}" for c in scn["target"].get("ccls", [])})
    if scn.get("plaus_omitted"):
        labs.append("plausible=omitted")
    if tr is not None:
        if tr.ctor_exc is not None:
            labs.append("outcome=ctor-" + tr.ctor_exc["type"])
        elif tr.run_exc is not None:
            labs.append("outcome=run-" + tr.run_exc["type"])
        elif tr.result is not None:
            labs.append("outcome=result")
            m = str(tr.result["message"])
            for key in ("max_fun_evals", "max_iter", "tol_mesh", "tol_fun"):
                if key in m:
                    labs.append("stop=" + key)
        if tr.bads is not None and hasattr(tr.bads, "var_transf") and np.any(tr.bads.var_transf.apply_log_t):
            labs.append("transform=log")
        ns, npoll = sum(1 for s in tr.steps if s["kind"] == "search"), sum(1 for s in tr.steps if s["kind"] == "poll")
        if ns:
            labs.append("has-search")
        if npoll:
            labs.append("has-poll")
    return labs
