"""History-dependent ("phase-scripted") targets and scripted search proposals: they drive adversarial
controller histories through the real optimize()/_search_step_/_poll_step_ (DESIGN.md §5 C03(2), C13)."""
from __future__ import annotations

import numpy as np
from hypothesis import strategies as st

from .scenario import record

OUTCOMES = ("S", "I", "F", "E", "s")  # big drop, tiny drop, rise, equal, medium drop


def outcome_lists():
    pat = st.one_of(
        st.lists(st.sampled_from(OUTCOMES), min_size=1, max_size=10),
        st.sampled_from([["S"], ["F"], ["I"], ["E"], ["S", "F"], ["F", "S"], ["F", "F", "S"], ["I", "F"], ["s", "F", "F"]]),
    )
    return record(
        init=st.lists(st.sampled_from(("F", "S", "E", "s")), min_size=1, max_size=4),
        search=pat, poll=pat,
        noise_test=st.sampled_from(["equal", "equal", "equal", "differ"]),
        big=st.sampled_from([2.0, 5.0, 20.0]),
        start=st.sampled_from([100.0, 0.0, -7.5, 1e4]),
    )


def make_value_script(oc):
    """Return script(trace, x, k) -> float. The value is chosen relative to the running best by the next
    script entry of the phase the call belongs to."""
    st_ = dict(best=None, i=dict(init=0, search=0, poll=0))

    def script(tr, x, k):
        ph = tr.phase[0]
        if st_["best"] is None:
            st_["best"] = float(oc["start"])
            return st_["best"]
        if k == 2 and ph == "init" and tr.bads is not None and tr.bads.optim_state["uncertainty_handling_level"] < 1:
            return st_["best"] + (0.0 if oc["noise_test"] == "equal" else 0.37)
        if ph not in ("init", "search", "poll"):
            return st_["best"]  # final re-sampling
        lst = oc[ph]
        o = lst[st_["i"][ph] % len(lst)]
        st_["i"][ph] += 1
        b = st_["best"]
        if o == "S":
            val = b - oc["big"]
        elif o == "s":
            val = b - 0.3
        elif o == "I":
            val = b - 1e-2
        elif o == "E":
            val = b
        else:
            val = b + 1.0
        st_["best"] = min(b, val)
        return float(val)

    return script


def search_modes():
    return st.lists(st.sampled_from(["real", "real", "evaluated", "incumbent", "fresh", "empty", "empty"]), min_size=1, max_size=5)


def make_search_script(modes):
    """Scripted stand-in for the hedge search: 'real' defers to the real search; 'evaluated' proposes an already
    logged point; 'incumbent' proposes the current point (both are removed by the candidate filter => empty search
    set once the filter removes evaluated points); 'empty' returns an empty candidate set, as the ES does when every
    candidate is infeasible; 'fresh' proposes the incumbent shifted by one search-mesh step in a cycling coordinate."""
    cnt = {"n": 0}

    def ss(tr, hedge, u, lb, ub, fl, gp, optim_state):
        m = modes[cnt["n"] % len(modes)]
        cnt["n"] += 1
        tr.events.append(dict(type="scripted_search", mode=m))
        if m == "real":
            return None
        u = np.array(u, dtype=float).ravel()
        if m == "empty":
            # what the ES returns when every candidate was infeasible / filtered out: an empty search set
            return np.empty((0, u.size)), np.empty((0,))
        if m == "evaluated":
            return fl.X[0].copy(), np.array([0.0])
        if m == "incumbent":
            return u.copy(), np.array([0.0])
        h = float(optim_state["search_mesh_size"])
        d = cnt["n"] % u.size
        v = u.copy()
        step = h * (1 + cnt["n"])
        v[d] = v[d] + step if v[d] + step <= np.ravel(optim_state["ub_search"])[d] else v[d] - step
        return v, np.array([0.0])

    return ss
