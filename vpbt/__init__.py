"""vpbt: property-based testing / fuzzing machinery for acerbilab/pybads (see /verif/DESIGN.md)."""
