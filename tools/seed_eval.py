#!/venv/bin/python
"""Confirm a sub-agent's seeded change and record it under seeded/<id>/.
usage: tools/seed_eval.py <prop> <a|b> [--props C12,C09] [--tier quick] [--src /tmp/seed_<prop>/_seed]"""
import argparse
import json
import os
import shutil
import subprocess
import sys

HERE = os.path.dirname(os.path.dirname(os.path.abspath(__file__)))


def main():
    ap = argparse.ArgumentParser()
    ap.add_argument("prop")
    ap.add_argument("which")
    ap.add_argument("--props", default=None)
    ap.add_argument("--tier", default="quick")
    ap.add_argument("--src", default=None)
    ap.add_argument("--seed", default="1")
    ap.add_argument("--round", default="1")
    ap.add_argument("--no-demo", action="store_true")
    ap.add_argument("--no-baseline", action="store_true")
    a = ap.parse_args()
    wt = f"/tmp/seed_{a.prop}" if a.round == "1" else f"/tmp/seed{a.round}_{a.prop}"
    src = a.src or f"{wt}/_seed"
    sid = f"{a.prop}_{a.which}" if a.round == "1" else f"{a.prop}_r{a.round}{a.which}"
    dst = os.path.join(HERE, "seeded", sid)
    os.makedirs(dst, exist_ok=True)
    if os.path.exists(os.path.join(src, f"patch_{a.which}.diff")):
        shutil.copy(os.path.join(src, f"patch_{a.which}.diff"), os.path.join(dst, "patch.diff"))
        shutil.copy(os.path.join(src, f"demo_{a.which}.py"), os.path.join(dst, "demo.py"))
        if os.path.exists(os.path.join(src, "NOTES.md")):
            shutil.copy(os.path.join(src, "NOTES.md"), os.path.join(dst, "NOTES_from_author.md"))
    props = a.props or a.prop
    tmp = f"/tmp/seedres_{sid}.json"
    # the demonstration runs in the author's own scratch worktree (demos assert that path); clean tree, then patched tree
    env = dict(os.environ, PYTHONPATH=wt, OMP_NUM_THREADS="1", OPENBLAS_NUM_THREADS="1", MKL_NUM_THREADS="1")
    demo = {}
    if os.path.isdir(wt) and not a.no_demo:
        subprocess.run(["git", "-C", wt, "checkout", "--", "."], capture_output=True)
        d0 = subprocess.run(["/venv/bin/python", f"_seed/demo_{a.which}.py"], cwd=wt, env=env, capture_output=True, text=True)
        ap_ = subprocess.run(["git", "-C", wt, "apply", "--whitespace=nowarn", f"_seed/patch_{a.which}.diff"], capture_output=True, text=True)
        d1 = subprocess.run(["/venv/bin/python", f"_seed/demo_{a.which}.py"], cwd=wt, env=env, capture_output=True, text=True)
        subprocess.run(["git", "-C", wt, "checkout", "--", "."], capture_output=True)
        demo = {"clean": d0.returncode, "patched": d1.returncode, "apply": ap_.returncode}
        print(f"demo: clean tree exit {d0.returncode}, patched tree exit {d1.returncode}  {(d1.stdout + d1.stderr).strip().splitlines()[-1:]}")
    cmd = ["/venv/bin/python", os.path.join(HERE, "tools", "mutant_eval.py"), os.path.join(dst, "patch.diff"), "--props", props, "--tier", a.tier,
           "--json", tmp, "--seed", a.seed] + ([] if a.no_baseline else ["--baseline"])
    p = subprocess.run(cmd, capture_output=True, text=True)
    print(p.stdout[-3000:])
    r = json.load(open(tmp)) if os.path.exists(tmp) else {}
    if demo:
        r["demo_clean"], r["demo_patched"] = demo["clean"], demo["patched"]
    meta_path = os.path.join(dst, "meta.json")
    meta = json.load(open(meta_path)) if os.path.exists(meta_path) else {"id": sid, "breaks_property": a.prop, "runs": []}
    conf = meta.get("confirmed", {})
    if r.get("demo_clean") is not None:
        conf.update({"demo_exit_on_clean_tree": r.get("demo_clean"), "demo_exit_on_patched_tree": r.get("demo_patched")})
    if r.get("baseline") is not None:
        conf["baseline_87_tests_exit_on_patched_tree"] = r.get("baseline")
    meta["confirmed"] = conf
    meta["runs"].append({"tier": a.tier, "seed": a.seed, "checks": r.get("props", {}),
                         "command": "tools/seed_eval.py (scratch worktree of /repo outside /repo and /verif, patch applied, removed afterwards)"})
    meta["caught_by"] = sorted({k for run in meta["runs"] for k, v in run["checks"].items() if v.get("exit") == 1})
    json.dump(meta, open(meta_path, "w"), indent=1)
    ok = conf.get("demo_exit_on_clean_tree") == 0 and conf.get("demo_exit_on_patched_tree") not in (0, None) and conf.get("baseline_87_tests_exit_on_patched_tree") == 0
    print(f"{sid}: valid seed={ok} caught_by={meta['caught_by']}")


if __name__ == "__main__":
    main()
