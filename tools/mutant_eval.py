#!/venv/bin/python
"""Evaluate a source patch (mutant / seeded change) against one or more checks, in a scratch worktree of /repo
outside /repo and /verif (removed afterwards).

usage: tools/mutant_eval.py PATCH [--props C01,C03] [--tier quick] [--baseline] [--demo DEMO.py] [--seed N] [--json OUT]
Prints one line per step; exit code 0 always (this is a developer tool, not a check)."""
import argparse
import hashlib
import json
import os
import shutil
import subprocess
import sys
import time

HERE = os.path.dirname(os.path.dirname(os.path.abspath(__file__)))


def sh(cmd, **kw):
    return subprocess.run(cmd, capture_output=True, text=True, **kw)


def main():
    ap = argparse.ArgumentParser()
    ap.add_argument("patch")
    ap.add_argument("--props", default="")
    ap.add_argument("--tier", default="quick")
    ap.add_argument("--baseline", action="store_true")
    ap.add_argument("--demo", default=None)
    ap.add_argument("--seed", default="1")
    ap.add_argument("--json", default=None)
    a = ap.parse_args()
    patch = os.path.abspath(a.patch)
    tag = hashlib.sha1((patch + str(time.time())).encode()).hexdigest()[:8]
    scratch = f"/tmp/mut_{tag}"
    out = {"patch": patch, "props": {}, "baseline": None, "demo_clean": None, "demo_patched": None}
    r = sh(["git", "-C", "/repo", "worktree", "add", "--detach", scratch, "HEAD"])
    if r.returncode:
        print("worktree failed", r.stderr)
        return
    try:
        env = dict(os.environ, PYTHONPATH=scratch, VPBT_REPO=scratch)
        if a.demo:
            d = sh(["/venv/bin/python", os.path.abspath(a.demo)], cwd=scratch, env=env, timeout=900)
            out["demo_clean"] = d.returncode
            print(f"demo on clean tree: exit {d.returncode}")
        r = sh(["git", "-C", scratch, "apply", "--whitespace=nowarn", patch])
        if r.returncode:
            print("PATCH DOES NOT APPLY:", r.stderr[:500])
            out["apply_error"] = r.stderr[:500]
            return
        if a.demo:
            d = sh(["/venv/bin/python", os.path.abspath(a.demo)], cwd=scratch, env=env, timeout=900)
            out["demo_patched"] = d.returncode
            print(f"demo on patched tree: exit {d.returncode}   {(d.stdout + d.stderr).strip().splitlines()[-1:] }")
        if a.baseline:
            b = sh(["/venv/bin/python", os.path.join(HERE, "tools", "baseline.py")], env=env, timeout=1800)
            out["baseline"] = b.returncode
            print("baseline on patched tree:", b.stdout.strip().splitlines()[-1] if b.stdout.strip() else b.stderr[-200:], f"(exit {b.returncode})")
        for p in [x for x in a.props.split(",") if x]:
            t0 = time.time()
            env2 = dict(os.environ, VPBT_REPO=scratch, VERIF_SEED=a.seed, VPBT_OUT=scratch + "_out")
            c = sh(["/venv/bin/python", "-m", "vpbt", p, "--tier", a.tier], cwd=HERE, env=env2, timeout=7200)
            viol = [l for l in c.stdout.splitlines() if l.startswith("VIOLATION")]
            sigs = [l.strip() for l in c.stdout.splitlines() if l.strip().startswith("signature:")]
            out["props"][p] = {"exit": c.returncode, "violations": len(viol), "signatures": sigs[:6], "wall": round(time.time() - t0, 1)}
            print(f"{p}: exit {c.returncode}, {len(viol)} VIOLATION line(s), {time.time() - t0:.0f}s")
            for s in sigs[:4]:
                print("    ", s[:200])
            if c.returncode == 2:
                print("    HARNESS-ERROR:", [l for l in c.stdout.splitlines() if "HARNESS" in l][:1], c.stdout[-600:])
    finally:
        sh(["git", "-C", "/repo", "worktree", "remove", "--force", scratch])
        shutil.rmtree(scratch, ignore_errors=True)
        if os.environ.get("KEEP_OUT") != "1":
            shutil.rmtree(scratch + "_out", ignore_errors=True)
    if a.json:
        json.dump(out, open(a.json, "w"), indent=1)


if __name__ == "__main__":
    main()
