#!/venv/bin/python
"""Run the repository's pinned test suite with the verification guard OFF and compare
with the stable baseline (87 tests). Exit 0 iff every stable test passes."""
import json, os, subprocess, sys, tempfile, xml.etree.ElementTree as ET

here = os.path.dirname(os.path.abspath(__file__))
repo = os.environ.get("VPBT_REPO", "/repo")
stable = json.load(open(os.path.join(here, "baseline_stable.json")))["stable_pass"]
env = dict(os.environ)
env.pop("PYBADS_VERIF", None)
with tempfile.TemporaryDirectory() as td:
    out = os.path.join(td, "junit.xml")
    subprocess.run(
        ["/venv/bin/python", "-m", "pytest", "-ra", "-q", "-p", "no:cacheprovider",
         "--timeout=900", "--continue-on-collection-errors", "--junitxml=" + out],
        cwd=repo, env=env, stdout=subprocess.DEVNULL, stderr=subprocess.DEVNULL)
    root = ET.parse(out).getroot()
passed = set()
for tc in root.iter("testcase"):
    bad = any(ch.tag in ("failure", "error", "skipped") for ch in tc)
    if not bad:
        passed.add(tc.get("classname") + "::" + tc.get("name"))
missing = [t for t in stable if t not in passed]
print(f"baseline: {len(stable) - len(missing)}/{len(stable)} stable tests pass")
for m in missing:
    print("  NOT PASSING:", m)
sys.exit(1 if missing else 0)
