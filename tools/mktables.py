#!/venv/bin/python
"""Regenerate the 'which checks catch which changes' tables in DESIGN.md (between the SENSITIVITY markers)."""
import glob
import json
import os

HERE = os.path.dirname(os.path.dirname(os.path.abspath(__file__)))
r = json.load(open(os.path.join(HERE, "vpbt", "mutants", "RESULTS.json")))
out = []
out.append("#### Seeded changes written by independent sub-agents (`seeded/<id>/`: patch.diff, demo.py, meta.json)\n")
out.append("Each was confirmed in a scratch worktree: demonstration exits 0 on the clean tree and non-zero with the patch, the 87-test\nbaseline stays green with the patch. `caught by` = quick-tier checks that exit 1 on the patched tree.\n")
out.append("| id | what it needs to manifest | caught by | note |")
out.append("|---|---|---|---|")
for mp in sorted(glob.glob(os.path.join(HERE, "seeded", "*", "meta.json"))):
    m = json.load(open(mp))
    out.append(f"| {m['id']} | {m.get('needs_to_manifest', '')} | {', '.join(m.get('caught_by', [])) or '**missed**'} | {m.get('history', '')} |")
out.append("")
out.append("#### Own sensitivity mutants (`vpbt/mutants/specs.py`, results in `vpbt/mutants/RESULTS.json`)\n")
valid = {k: v for k, v in r.items() if v["baseline_exit"] == 0}
out.append(f"{len(r)} mutants; {len(valid)} keep the existing suite green; {sum(1 for v in valid.values() if v['caught_by'])} of those are caught by a quick check; "
           f"the {sum(1 for v in valid.values() if not v['caught_by'])} survivors are equivalent mutants (see notes). Mutants that already fail the existing suite are listed for completeness.\n")
out.append("| mutant | file | suite | caught by | note |")
out.append("|---|---|---|---|---|")
for k, v in r.items():
    out.append(f"| {k} | {os.path.basename(v['file'])} | {'green' if v['baseline_exit'] == 0 else 'fails'} | {', '.join(v['caught_by']) or '—'} | {v.get('note', '')} |")
txt = "\n".join(out)
p = os.path.join(HERE, "DESIGN.md")
s = open(p).read()
a, b = "<!-- SENSITIVITY-BEGIN -->", "<!-- SENSITIVITY-END -->"
if a not in s:
    s += f"\n### 9.6 Which checks catch which changes\n\n{a}\n{b}\n"
i, j = s.index(a) + len(a), s.index(b)
s = s[:i] + "\n" + txt + "\n" + s[j:]
open(p, "w").write(s)
print("tables written:", len(out), "lines")
