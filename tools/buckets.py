#!/venv/bin/python
"""Developer tool: run N generated scenarios of a profile and bucket the exceptions by (stage, type, site).
usage: tools/buckets.py <check id> [n] [seed]"""
import importlib
import json
import os
import sys
from collections import Counter, defaultdict

sys.path.insert(0, os.path.dirname(os.path.dirname(os.path.abspath(__file__))))
from vpbt import engine  # noqa: E402

engine.setup_env()
sys.path.insert(0, engine.repo_dir())


def work(args):
    pid, n, seed = args
    engine._worker_init()
    from hypothesis import given, seed as hseed

    from vpbt import harness, scenario
    mod = importlib.import_module(f"vpbt.checks.{pid}")
    prof = getattr(mod, "PROFILE", scenario.DEFAULT_PROFILE)
    out = []

    def run(scn):
        tr = harness.run(scn)
        e = tr.ctor_exc or tr.run_exc
        if e:
            out.append((("ctor" if tr.ctor_exc else "run"), e["type"], e["site"], e["msg"][:150], engine.jsonable(scn)))
        else:
            out.append(("ok", "", "", "", None))

    hseed(seed)(engine.hyp_settings(n)(given(scenario.scenario(prof))(run)))()
    return out


if __name__ == "__main__":
    import multiprocessing as mp

    pid = sys.argv[1]
    n = int(sys.argv[2]) if len(sys.argv) > 2 else 320
    seed = int(sys.argv[3]) if len(sys.argv) > 3 else 1
    with mp.get_context("spawn").Pool(16) as pool:
        res = pool.map(work, [(pid, n // 16, seed * 1000 + i) for i in range(16)])
    cnt = Counter()
    ex = {}
    for r in res:
        for stage, typ, site, msg, scn in r:
            k = (stage, typ, site, msg[:70])
            cnt[k] += 1
            if scn is not None and k not in ex:
                ex[k] = scn
    for k, n_ in cnt.most_common():
        print(n_, k)
    json.dump({"|".join(k): v for k, v in ex.items()}, open("/tmp/buckets_examples.json", "w"), indent=1)
