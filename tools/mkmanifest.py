#!/venv/bin/python
"""Regenerate /verif/MANIFEST.json from the check modules that exist (keeps the manifest valid at all times)."""
import importlib
import json
import os
import subprocess
import sys

HERE = os.path.dirname(os.path.dirname(os.path.abspath(__file__)))
sys.path.insert(0, HERE)
sys.path.insert(0, "/repo")

ALL = [f"C{i:02d}" for i in range(1, 21)]
PY = "/venv/bin/python"

claimed, na = [], []
for pid in ALL:
    path = os.path.join(HERE, "vpbt", "checks", f"{pid}.py")
    if not os.path.exists(path):
        na.append({"property_id": pid, "reason": "check not built yet in this revision of /verif (see DESIGN.md §5 for the planned generator and oracle)"})
        continue
    mod = importlib.import_module(f"vpbt.checks.{pid}")
    claimed.append({
        "property_id": pid,
        "quick_cmd": f"{PY} -m vpbt {pid} --tier quick",
        "thorough_cmd": f"{PY} -m vpbt {pid} --tier thorough",
        "evidence_file": f"evidence/{pid}.json",
        "replay_cmd_template": f"{PY} -m vpbt {pid} --replay {{path}}",
        "engine": "vpbt",
        "level_claimed": {
            "category": mod.LEVEL,
            "text": getattr(mod, "LEVEL_TEXT", "Generated-input search against an explicit oracle; holds on everything explored, no absence claim."),
            "design_ref": f"DESIGN.md §5 {pid}",
        },
        "level_note": "; ".join(mod.ASSUMPTIONS),
        "technique": getattr(mod, "TECHNIQUE", "property-based testing (Hypothesis-generated scenarios, instrumented runs, explicit oracle, collect-bucket-minimise)"),
    })

hook_commits = subprocess.run(["git", "-C", "/repo", "log", "--format=%H", "--grep=^verif hook"], capture_output=True,
                              text=True).stdout.split()
man = {
    "version": 1,
    "setup_cmd": "/venv/bin/pip install --no-index --find-links /opt/veriftools/wheels hypothesis >/dev/null 2>&1; /venv/bin/pip install --no-index --find-links /opt/veriftools/wheels --target .deps atheris >/dev/null 2>&1; /venv/bin/python -c 'import hypothesis, numpy, scipy, gpyreg'",
    "hooks": {
        "guard": "PYBADS_VERIF",
        "enable": "checks set PYBADS_VERIF=1 in the worker environment and install pybads.bads.bads._verif_loop_probe; pybads is pure Python, every check starts fresh interpreters importing /repo's working tree",
        "baseline_off_cmd": "/venv/bin/python tools/baseline.py",
        "source_commits": hook_commits,
        "add_only": True,
    },
    "engines": [{"name": "vpbt", "path": "vpbt/", "serves_properties": [c["property_id"] for c in claimed],
                 "kind_free_text": "sharded Hypothesis driver (16 spawn workers), instrumented BADS runs, reference models, exhaustive enumeration of small finite spaces, fault enumeration; buckets violations by signature and minimises them"}],
    "checks": claimed,
    "not_applicable": na,
    "notes": "Family: property-based testing and fuzzing. Known findings and fixed defects: known_findings.json. Design: DESIGN.md.",
}
json.dump(man, open(os.path.join(HERE, "MANIFEST.json"), "w"), indent=1)
print("claimed:", [c["property_id"] for c in claimed])
import jsonschema

jsonschema.validate(man, json.load(open("/root/.vp/MANIFEST.schema.json")))
print("manifest valid")
