#!/bin/bash
# usage: tools/fixcommit.sh "fix: message"  -- runs the baseline on /repo's working tree, commits if green
set -e
cd /verif
/venv/bin/python tools/baseline.py
cd /repo
git add -A
git commit -qm "$1"
git log --oneline | head -1
