#!/bin/bash
# usage: tools/runall.sh [tier] [seed] ["C01 C02 ..."]   -- runs every registered check (or the listed ones) once, prints exit codes and times
tier=${1:-quick}; seed=${2:-1}
cd "$(dirname "$0")/.."
checks=${3:-$(/venv/bin/python -c "import json;print(' '.join(c['property_id'] for c in json.load(open('MANIFEST.json'))['checks']))")}
for p in $checks; do
  s=$(date +%s)
  VERIF_SEED=$seed /venv/bin/python -m vpbt $p --tier $tier > /tmp/runall_${tier}_$p.log 2>&1
  rc=$?
  e=$(date +%s)
  echo "$p rc=$rc $((e-s))s $(grep -c '^VIOLATION' /tmp/runall_${tier}_$p.log) violations $(grep -c '^KNOWN-FINDING' /tmp/runall_${tier}_$p.log) known"
done
