#!/venv/bin/python
"""Re-run every recorded seeded change against the current checks (quick tier) and store the outcome as
meta.json['final_rerun'] (sensitivity regression: a check that stopped catching a change it used to catch shows up here)."""
import glob
import json
import os
import subprocess
import sys

HERE = os.path.dirname(os.path.dirname(os.path.abspath(__file__)))
only = sys.argv[1:] or None
bad = []
for mp in sorted(glob.glob(os.path.join(HERE, "seeded", "*", "meta.json"))):
    m = json.load(open(mp))
    if only and m["id"] not in only:
        continue
    props = m.get("caught_by") or [m["breaks_property"]]
    tmp = f"/tmp/seedrerun_{m['id']}.json"
    subprocess.run(["/venv/bin/python", os.path.join(HERE, "tools", "mutant_eval.py"), os.path.join(os.path.dirname(mp), "patch.diff"),
                    "--props", ",".join(props), "--tier", "quick", "--json", tmp], capture_output=True, text=True)
    r = json.load(open(tmp)) if os.path.exists(tmp) else {}
    caught = sorted(k for k, v in r.get("props", {}).items() if v.get("exit") == 1)
    m["final_rerun"] = {"checks": {k: v.get("exit") for k, v in r.get("props", {}).items()}, "caught_by": caught}
    json.dump(m, open(mp, "w"), indent=1)
    print(m["id"], "caught_by", caught, flush=True)
    if not caught:
        bad.append(m["id"])
print("NOT CAUGHT IN RERUN:", bad)
